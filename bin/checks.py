"""Table of property checks: which harness parts decide which property (DESIGN.md §4).
MANIFEST.json is generated from this table by bin/mkmanifest."""
import os

VERIF = os.path.dirname(os.path.dirname(os.path.abspath(__file__)))

E1 = "E1 dsched schedule exploration"


def e1(harness, part, variant="dsched", **kw):
    d = dict(harness=harness, variant=variant, part=part)
    d.update(kw)
    return d


def nat(harness, part, variant="native", **kw):
    d = dict(harness=harness, variant=variant, part=part)
    d.update(kw)
    return d


SC_NOTE = "Explores sequentially consistent interleavings at atomic-operation granularity (2-8 threads, bounded programs); weak-memory-only failures are C10's subject. Sampled, not enumerated. Linux futex back end, small tuning constants (spin 16, wake group 2) in the quick tier."
E1_ASSUME = ["dsched serialises threads and models futex/mutex/condvar/semaphore/clock per their specifications; schedule points = atomic operations and blocking calls",
             "SC interleavings only; plain-memory races and weak-memory reorderings are checked by C10 (TSan)"]


def pool_check(title, text, parts, ref, technique=None, note=None):
    return dict(title=title, level="exploration",
                technique=technique or "program-level PBT: generated pool programs (producers, task sets, bulk/FQ submissions, nested waits, resizes) run under generated schedules by the dsched explorer; oracle = ledger / barrier / monitor over the execution",
                text=text, note=note or SC_NOTE, design_ref=ref, parts=parts, assumptions=E1_ASSUME)


CHECKS = {
    "C01": pool_check("Every task handed to a ThreadPool runs exactly once",
                      "Generated multi-producer programs over schedule / schedule(FQ) / scheduleBulk (external and in-pool producers, pools of 0-6 threads, wake and poll mode) under generated interleavings; ledger oracle: after ~ThreadPool returns every submitted functor ran exactly once and none starts later. Second part: the task-set programs of C02 (TaskSet / ConcurrentTaskSet single, bulk and force-queued submissions reach the pool through its ring-bulk and placed-scheduling entry points, which the plain pool API does not exercise) under the same ledger; a functor the pool loses there shows as a wait() that never returns (explorer livelock report) or as a ledger miss.",
                      [e1("pool", "prog"), dict(harness="pool", variant="dsched", part="prog", prop="C02", quick=1500, thorough=60000)], "§4 C01"),
    "C02": pool_check("Task-set wait is a completion barrier",
                      "Programs with TaskSet / ConcurrentTaskSet (light, heavy), single/bulk/FQ submissions, shared sets, nested sets and parallel_for; at the return of every wait(), tryWait()==true and destructor all tasks submitted before have finished, each body ran once. Third part: continuations registered on a set with Future::then(f, set) while their antecedent runs outside the set (C19's then-chain programs with the set's wait() placed before the final get()): wait() returns only when they have finished.",
                      [e1("pool", "prog"), e1("pool", "forkjoin"), dict(harness="future", variant="dsched", part="then", prop="C19", quick=3000, thorough=100000)], "§4 C02"),
    "C03": pool_check("Pool resize never loses, duplicates or strands work",
                      "C02-style programs with a concurrent resizer thread (grow, shrink, zero); ledger + barrier + termination oracle (explorer deadlock report, fair-schedule livelock confirmation).",
                      [e1("pool", "prog")], "§4 C03"),
    "C04": pool_check("Cancelled task sets start no further task bodies",
                      "Generated cancellation scenarios: trigger (cancel(), throwing task, parent cascade) x set kind x submission form (single, bulk, FQ) x load (idle, gated+saturated pool, pool-recursive overloaded caller) x scenario (submit after cancel returned / queued behind gates then cancelled); oracle: no forbidden body runs, wait() reports cancellation.",
                      [e1("pool", "cancel")], "§4 C04",
                      technique="scenario-family PBT under dsched schedules; oracle = forbidden-body counter (bodies whose submission began after cancel() returned, or that were queued behind gates at cancel time)"),
    "C05": pool_check("Task exceptions are captured and rethrown exactly once",
                      "Programs whose set tasks throw tagged exceptions on inline and queued paths; exception ledger: every delivered tag was thrown, none delivered twice, a wait that observes completion of a set with a captured exception rethrows, none rethrown without a capture, barrier intact.",
                      [e1("pool", "prog")], "§4 C05"),
    "C06": pool_check("Nested waits never deadlock through pool starvation",
                      "Acyclic nesting programs (tasks creating child sets / parallel_for and waiting, depth <= 3, heavy and light costs, idle phases so workers park) on pools of 0-6 threads; termination oracle: explorer deadlock report or fair-schedule livelock confirmation is a violation, budget overrun is inconclusive. Second part: waits on Futures (get / wait / timed waits from 1-3 threads on futures of every scheduler and launch policy, with the pool's workers gated so that only the waiter can run the functor): the same termination oracle.",
                      [e1("pool", "prog"), dict(harness="future", variant="dsched", part="fut", prop="C18", quick=2500, thorough=80000)], "§4 C06"),
    "C07": pool_check("Submissions to an idle pool start without the sleep backstop",
                      "All workers parked (virtual sleep, checked), one producer submits by one of 12 paths; virtual-time oracle: if the explorer has to jump the clock to a worker's idle-sleep deadline before all submitted work has started, the start depended on the backstop. Exact, no wall clock. Failures are classified by where the unstarted work sat (hook H2).",
                      [e1("pool", "idle")], "§4 C07",
                      technique="PBT over (pool size, submission path, task count) x generated schedules and futex-wake victim choices under dsched's virtual clock; oracle = no virtual-time jump to a worker backstop before all work started"),
    "C08": pool_check("Pool work accounting returns to zero at quiescence",
                      "Generated history (task sets, bulk ring submissions racing resize) brought to quiescence, then a black-box probe: with all workers gated, count the schedule() calls before the first inline run and compare with a fresh pool of the same size and multiplier.",
                      [e1("pool", "probe")], "§4 C08",
                      technique="differential PBT: inline-threshold of the pool after a generated history vs a fresh pool (same child process), histories run under dsched schedules"),
    "C09": pool_check("Pool shutdown and resize always complete",
                      "Workers driven into generated state mixes (busy, spinning, parking, parked), then ~ThreadPool / resize / setSignalingWake; oracle: returns without any virtual-time jump to a worker backstop (wake mode), within 50 ms virtual (poll mode), explorer thread table shows exactly the new configuration's workers alive.",
                      [e1("pool", "stop")], "§4 C09",
                      technique="PBT over worker-state mixes x stop/resize/mode-switch under dsched's virtual clock; oracle = no backstop jump + thread-table census + deadlock/livelock detector"),
    "C46": pool_check("Inline task execution never grows the stack without bound",
                      "Chains of L tasks each scheduling the next under overload (pool.schedule, TaskSet, ConcurrentTaskSet light/heavy, bulk); metamorphic oracle: the per-thread nesting depth for a 6-10x longer chain may not exceed depth(L)+4 unless it stays under an absolute constant (48).",
                      [e1("pool", "chain", quick=1500)], "§4 C46",
                      technique="metamorphic PBT (chain length L vs scale*L) with a per-thread nesting counter, executed under dsched"),
    "C47": pool_check("ForceQueuingTag never runs the functor on the caller",
                      "C01/C02-style programs on pools >= 1 thread with small load multipliers (inline paths reachable); each force-queued body checks it is not running on its submitter before the submitting call returned.",
                      [e1("pool", "prog")], "§4 C47"),
    "C21": dict(
        title="CompletionEvent and Latch waits never miss a wakeup",
        level="exploration",
        technique="stateful PBT over generated latch/event programs, schedules generated by the dsched explorer (real code, serialised threads, modelled futex); oracle = early-return monitor + deadlock detector",
        text="Generated programs (2-4 threads, latch counts 1-8, count_down(n>1), arrive_and_wait, wait, try_wait; 1-4 event waiters) are executed under thousands of generated interleavings, futex-wake orders and spurious futex returns; a missed wakeup shows as an explorer deadlock report, an early return through the started-decrements monitor.",
        note=SC_NOTE,
        design_ref="§4 C21",
        parts=[e1("sync", "latch"), e1("sync", "event")],
        assumptions=E1_ASSUME,
    ),
}

LOOP_NOTE = "Native part: real threads, release-like -O1 build with asserts on, 16 worker processes; E1 part: dsched schedule exploration (SC interleavings at atomic granularity, 0-3 pool threads, small tuning constants). Range sizes follow the documented domain (ChunkedRange: sizes that fit int64_t). Sampled except where stated exhaustive."
LOOP_ASSUME = ["range sizes <= INT64_MAX (ChunkedRange's documented domain); explicit chunk sizes >= 1 with a bounded number of chunks",
               "E1 part: SC interleavings only; native part: whatever the OS schedules, on 0-4 pool threads"] + E1_ASSUME[:1]


def loop_check(title, text, parts, ref, technique, note=None, **kw):
    d = dict(title=title, level="exploration", technique=technique, text=text, note=note or LOOP_NOTE, design_ref=ref, parts=parts,
             assumptions=LOOP_ASSUME)
    d.update(kw)
    return d


CHECKS.update({
    "C12": loop_check("parallel_for covers each index exactly once",
                      "Generated parallel_for calls over all eight index types, edge-biased (start,end) pairs (type limits, zero-straddling, empty, reversed, size 1..600 and huge ranges up to 2^63 in range-functor form), static / adaptive / explicit chunking, every ParForOptions field, TaskSet and ConcurrentTaskSet, stateful and stateless overloads, pools of 0-4 threads, nesting levels 0-2; plus ALL 65792 (start,end) pairs of both 8-bit types; plus the same generator under dsched schedules. Oracle: the logged body intervals are an exact partition of [start,end) and no body is running when the call / taskSet.wait() returns.",
                      [nat("loops", "native"), nat("loops", "exh8"), e1("loops", "e1")], "§4 C12",
                      "PBT with an interval-partition oracle: edge-biased generated ranges/options (native threads) + exhaustive 8-bit sweep + the same programs under generated dsched schedules"),
    "C13": loop_check("parallel_for honours the granularity contract",
                      "As C12 with granularity in {2,3,4,7,8,16,64}, static and adaptive chunking only, start offsets and sizes covering all residues; oracle over the logged chunk sizes: at most one is not a multiple of g and that one ends at the range end.",
                      [nat("loops", "native"), e1("loops", "e1")], "§4 C13",
                      "PBT over (start, size, g, chunking, wait, pool) with a chunk-size oracle (both directions of the statement), native + dsched schedules"),
    "C14": loop_check("parallel_for never uses one state object concurrently",
                      "Stateful parallel_for overloads (vector / deque / list state containers, pre-filled or not, reuseExistingState) over all chunking modes, granularity tails, wait true/false; every state carries an in-use flag taken by CAS on body entry (a failed CAS is a violation), bodies contain preemption points; the monitor stays armed until taskSet.wait() returns; states container non-empty afterwards.",
                      [e1("loops", "e1"), nat("loops", "native")], "§4 C14",
                      "PBT with a per-state exclusivity monitor (CAS in-use flag) under generated dsched schedules and native threads"),
    "C15": loop_check("for_each applies the function once per element",
                      "for_each / for_each_n over vector, list and forward_list, n in {0,1,2..3*threads+2, up to 1000}, extra elements beyond n, maxThreads in {0,1,2,n,n+1,unlimited}, wait true/false, TaskSet and ConcurrentTaskSet, pools of 0-4 threads (zero-thread pools included), nested in a pool task; per-element counters must be exactly 1 for the first n and 0 beyond, nothing running at return / wait(). A crash or assertion in the child is a violation.",
                      [nat("loops", "native"), e1("loops", "e1")], "§4 C15",
                      "PBT with per-element application counters, native threads + generated dsched schedules; crash = violation"),
    "C16": loop_check("parallel_invoke runs each functor exactly once",
                      "Generated divide-and-conquer trees of parallel_invoke calls (arity 1-8, depth up to 12, unbalanced), pools of 0-4 threads, small load multipliers so the inline fallback is reached; leaf ledger exactly 1 each, the last functor of every call ran on the calling thread before the call returned, everything finished at wait().",
                      [nat("loops", "native"), e1("loops", "e1")], "§4 C16",
                      "program-level PBT (generated recursion shapes) with a leaf ledger and caller-thread check, native + dsched schedules"),
    "C48": loop_check("maxThreads bounds the concurrency of parallel loops",
                      "parallel_for (all chunking modes, granularity tails, wait true/false) and for_each with maxThreads in 0..n+1; the body increments a concurrent-invocation counter around preemption points; oracle: max concurrency <= max(1,maxThreads), and for maxThreads in {0,1} all bodies on one thread.",
                      [e1("loops", "e1"), nat("loops", "native"), e1("loops", "fe-e1"), nat("loops", "fe-native")], "§4 C48",
                      "PBT with a concurrent-invocation monitor under generated dsched schedules and native threads"),
})


# ---- custom part kind "fuzz": a libFuzzer target (fuzz/<target>.cpp) with its semantic oracle inside ----------------
def _fuzz_paths(part):
    import vbuild
    work = os.path.join(vbuild.BUILD, "fuzzwork", part["target"])
    return work, os.path.join(VERIF, "corpus", part["corpus"])


def _fuzz_build(part):
    import vbuild
    return vbuild.build_harness(part["target"], "fuzz", src=os.path.join(VERIF, "fuzz", part["target"] + ".cpp"))


def custom_run(prop, part, tier, seed, sigs):
    import glob, hashlib, json, shutil, subprocess, time
    t0 = time.time()
    binary = _fuzz_build(part)
    work, seeds = _fuzz_paths(part)
    shutil.rmtree(work, ignore_errors=True)
    runs = part.get(tier, 200000)
    jobs = 8
    procs = []
    for k in range(jobs):
        d = os.path.join(work, "j%d" % k)
        os.makedirs(os.path.join(d, "corpus"))
        os.makedirs(os.path.join(d, "art"))
        # half of the workers start from the seed corpus, half from an empty one (the two can behave very differently)
        if k % 2 == 0:
            for f in glob.glob(os.path.join(seeds, "*")):
                shutil.copy(f, os.path.join(d, "corpus"))
        env = dict(os.environ)
        env["VF_FUZZ_STATS"] = os.path.join(d, "stats.json")
        env["ASAN_OPTIONS"] = "detect_leaks=1:abort_on_error=0"
        cmd = [binary, os.path.join(d, "corpus"), "-runs=%d" % (runs // jobs), "-seed=%d" % (int(seed) * 64 + k + 1), "-max_len=%d" % part.get("max_len", 600),
               "-artifact_prefix=" + os.path.join(d, "art") + "/", "-print_final_stats=1", "-timeout=20", "-rss_limit_mb=2048"]
        procs.append((d, subprocess.Popen(cmd, stdout=subprocess.DEVNULL, stderr=open(os.path.join(d, "log.txt"), "w"), env=env)))
    res = dict(prop=prop, part=part["part"], engine="E3-libFuzzer", seed=seed, tier=tier, requested=runs, evaluations=0, distinct_nontrivial=0,
               rule="a well-formed non-empty CPU list, or a generated topology document that contains a group of the requested cache level; distinct = inputs kept in the corpus because they reached new coverage",
               classes={}, samples=[], failures=[], inconclusive=0, inconclusive_reasons={}, known_hits={}, crashes=0, budget_hit=False, exhaustive=False)
    for d, p in procs:
        p.wait()
        log = open(os.path.join(d, "log.txt"), errors="replace").read()
        for l in log.splitlines():
            if "stat::number_of_executed_units" in l:
                res["evaluations"] += int(l.split()[-1])
        try:
            st = json.load(open(os.path.join(d, "stats.json")))
            for k2, v in st.items():
                res["classes"][k2] = res["classes"].get(k2, 0) + v
        except (OSError, ValueError):
            pass
        res["distinct_nontrivial"] += len(os.listdir(os.path.join(d, "corpus")))
        for a in sorted(glob.glob(os.path.join(d, "art", "*"))):
            base = os.path.basename(a)
            if not (base.startswith("crash-") or base.startswith("leak-")):
                res["inconclusive"] += 1  # slow-unit / timeout / oom: load noise, never a violation
                res["inconclusive_reasons"][base.split("-")[0]] = res["inconclusive_reasons"].get(base.split("-")[0], 0) + 1
                continue
            sig, what = "fuzz-crash", ""
            for l in log.splitlines():
                if l.startswith("VF-FUZZ-VIOLATION"):
                    sig = l.split("sig=")[1].split()[0]
                    what = l
                elif "ERROR: AddressSanitizer" in l or "runtime error:" in l or "ERROR: LeakSanitizer" in l:
                    what = what or l
                    sig = sig if sig != "fuzz-crash" else "sanitizer"
            os.makedirs(os.path.join(VERIF, "replay"), exist_ok=True)
            dst = os.path.join(VERIF, "replay", "%s-fuzz-%s" % (prop, hashlib.sha1(open(a, "rb").read()).hexdigest()[:12]))
            shutil.copy(a, dst)
            ok = sum(1 for _ in range(3) if subprocess.run([binary, dst], stdout=subprocess.DEVNULL, stderr=subprocess.DEVNULL).returncode != 0)
            res["failures"].append(dict(sig=sig, msg=(what or "libFuzzer artifact " + base)[:600] + " [input file: %s]" % dst, kv="file=" + dst, index=0, replayed="%d/3" % ok, artifact=dst))
    for d, p in procs[:2]:
        for f in sorted(os.listdir(os.path.join(d, "corpus")))[:2]:
            b = open(os.path.join(d, "corpus", f), "rb").read()
            res["samples"].append("corpus entry %s: %r" % (f[:10], b[:160]))
    res["wall_s"] = time.time() - t0
    shutil.rmtree(work, ignore_errors=True)
    return res


def custom_replay(prop, part, r, path):
    import subprocess
    binary = _fuzz_build(part)
    f = r.get("artifact") or r.get("kv", "")[5:]
    p = subprocess.run([binary, f], stdout=subprocess.PIPE, stderr=subprocess.STDOUT, text=True)
    if p.returncode != 0:
        print("replay: FAILS (libFuzzer target exits %d on %s)" % (p.returncode, f))
        print("VIOLATION property=%s replay=%s" % (prop, path))
        return 1
    print("replay: passed")
    return 0


def custom_known(prop, part, k):
    raise NotImplementedError


def fuzz(target, part, corpus, quick, thorough, **kw):
    d = dict(kind="custom", harness="fuzz/" + target, variant="fuzz", part=part, target=target, corpus=corpus, quick=quick, thorough=thorough)
    d.update(kw)
    return d


NOT_YET = {}


def rc(harness, part, variant="rc", **kw):
    d = dict(harness=harness, variant=variant, part=part)
    d.update(kw)
    return d


FUZZ_CPUSET = dict(kind="custom", harness="fuzz/cpuset_fuzz", variant="fuzz", part="fuzz", target="cpuset_fuzz", corpus="cpuset", quick=400000, thorough=24000000, max_len=600)
RC_NOTE = "rapidcheck generates and shrinks the cases (16 independent runs with derived seeds); the oracle is a plain function so a shrunk failure replays without the library. Pure sequential code: no schedule dimension."
CHECKS.update({
    "C17": dict(title="Static chunking arithmetic partitions ranges exactly", level="exploration",
                technique="rapidcheck PBT over (items, chunks, granularity) and (index type, start, size, threads, granularity) with an arithmetic oracle computed in 128-bit integers; exhaustive enumeration of the small box",
                text="staticChunkSize / staticChunkSizeGranular over edge-biased (items up to 2^61, chunks up to 2^61 and around items, granularity up to 2^20): transition index in [0,chunks], sizes sum to items, larger first, differ by one unit, ceil minimal; StaticChunkMapper<T> for all eight index types constructed exactly as parallel_for does: boundaries contiguous from start to end, non-increasing sizes, granular; plus the complete box units<=300 x chunks<=64 x g<=8. (for_each's offset arithmetic is exercised end-to-end by C15.)",
                note=RC_NOTE + " Inputs respect the stated precondition (no ssize_t overflow: items + 2*chunks < 2^63; items a multiple of granularity).",
                design_ref="§4 C17", parts=[rc("arith", "chunk"), rc("arith", "mapper"), rc("arith", "box")], exhaustive=False,
                assumptions=["128-bit reference arithmetic of the harness", "inputs within the property's stated domain (no ssize_t overflow)"]),
    "C44": dict(title="Bit-math helpers are correct for all inputs", level="exploration",
                technique="rapidcheck PBT with definitional reference implementations (loops) + enumeration of all 32-bit inputs (thorough tier exhaustive, quick tier stratified 2^24) + alignment oracle for alignedMalloc",
                text="nextPow2 (v <= 2^63), log2 / log2const (64- and 32-bit overloads, v != 0), countTrailingZeros (v != 0), countSetBits, alignToCacheLine against loop-based reference definitions over edge-biased 64-bit values (random, shifted, 2^k+{-1,0,1}, two-bit patterns); every 32-bit value in the thorough tier (4096 blocks of 2^20), a 16.7M-value stratified sweep in the quick tier; alignedMalloc(bytes, 2^a) for a in 0..16: address multiple of the alignment, memory writable, freed by alignedFree.",
                note=RC_NOTE, design_ref="§4 C44", parts=[rc("arith", "bits"), rc("arith", "all32"), rc("arith", "amalloc")],
                assumptions=["reference implementations are the mathematical definitions written as loops"]),
})

MODEL_NOTE = "rapidcheck stateful model test (operation sequences generated and shrunk as one value, 16 independent runs); oracle = std::vector model + lifetime registry (every element object registered on construction, removed on destruction). Second part: the same sequences under ASan+UBSan. Sequential use only (concurrent growth is C33)."
CHECKS.update({
    "C32": dict(title="ConcurrentVector behaves like std::vector sequentially", level="exploration",
                technique="rapidcheck stateful model-based testing against std::vector with a lifetime registry; sequences shrink to minimal op lists; ASan+UBSan variant of the same generator",
                text="Generated sequences (up to 80 ops quick / 400 thorough) over 31 operation kinds - every constructor form, assign, push/emplace, the grow_by family, grow_to_at_least, insert (value, rvalue, count, range, list), erase (single, range), resize, reserve, pop_back, clear, shrink_to_fit, copy/move construction and assignment, swap, all six comparisons - on two vectors, for five trait combinations (default, the suite's A and B, and two more covering the remaining switch values) and three element types (16-byte and 272-byte lifetime-tracked objects, heap-owning std::string). After every operation: size, contents by index / forward / reverse iteration, front/back/at, returned iterator positions, comparisons equal std::vector's, and the number of live element objects equals the two sizes; no object is constructed over a live one, destroyed twice or touched when dead.",
                note=MODEL_NOTE, design_ref="§4 C32", parts=[rc("cvec", "model"), rc("cvec", "model", variant="rcasan", quick=30000, thorough=400000)],
                assumptions=["preconditions as for std::vector (no pop_back on an empty vector, positions within [begin,end])", "grow_to_at_least's returned iterator has no std::vector counterpart and is not compared"]),
})

CHECKS.update({
    "C38": dict(title="SmallVector behaves like std::vector with aligned storage", level="exploration",
                technique="rapidcheck stateful model-based testing against std::vector + per-element address alignment oracle + lifetime registry; ASan+UBSan variant",
                text="Generated sequences over 15 operation kinds (push_back const&/&&, emplace_back, pop_back, resize with and without value, erase, clear, reserve, copy/move construction and assignment, self-assignment, all constructor forms) on two SmallVectors, for inline capacities 1, 2, 4, 8, 64 and element types: 8-aligned and alignas(64) lifetime-tracked objects (all five capacities), alignas(32) tracked, std::string. After every operation contents and size equal std::vector's, every element address is a multiple of alignof(T) (inline and heap), live element objects == the two sizes, no object constructed over a live one / destroyed twice.",
                note=MODEL_NOTE.replace("(concurrent growth is C33)", ""), design_ref="§4 C38",
                parts=[rc("small", "model"), rc("small", "model", variant="rcasan", quick=30000, thorough=400000)],
                assumptions=["preconditions as for std::vector"]),
    "C39": dict(title="OnceFunction invokes and destroys its callable exactly once", level="exploration", exhaustive=True,
                technique="exhaustive enumeration of a finite case table (callable type x history) with instance counters and payload pattern as oracle; ASan+UBSan variant",
                text="33 callable types (sizes 1..2048 across the 56-byte inline/spill boundary and every small-buffer class, alignments 1..256) x constructed from lvalue/rvalue x move-construct chains of length 0-4 x optional move-assignment into an empty OnceFunction x {operator(), cleanupNotRun()}: exactly one stored instance after construction and after every move, invoked exactly once (or never on the not-run path) at exactly the call, constructed == destroyed afterwards, constructed and invoked at an address aligned for the callable, payload intact at invocation. All 1320 combinations are run in both tiers.",
                note="Finite table enumerated completely; the callable types are a sample of the size/alignment plane chosen on its boundaries (not every size). Inline callables are trivially relocated by memcpy as documented, so instances are counted rather than tracked by address.", design_ref="§4 C39",
                parts=[rc("small", "once"), rc("small", "once", variant="rcasan")],
                assumptions=["callables are position independent (documented requirement of OnceFunction)"]),
    "C40": dict(title="OpResult has optional semantics with balanced lifetimes", level="exploration",
                technique="rapidcheck stateful model-based testing against an optional model + lifetime registry; ASan+UBSan variant",
                text="Sequences over three OpResult<Tracked> objects: default / value construction, copy and move construction, copy / move / self assignment, emplace, reads; model = std::optional semantics for every object not moved from (a moved-from source is 'valid but unspecified' until reassigned: its engagement is not compared, but if it reports a value that object must be alive); live contained objects == engaged OpResults after every step and zero at the end.",
                note=MODEL_NOTE.replace("std::vector model", "optional model").replace("(concurrent growth is C33)", ""), design_ref="§4 C40",
                parts=[rc("small", "model"), rc("small", "model", variant="rcasan", quick=30000, thorough=400000)],
                assumptions=["moved-from OpResult state is unspecified (std::optional stays engaged, OpResult disengages; the property demands neither)"]),
})

CHECKS.update({
    "C43": dict(title="CpuSet set algebra, CPU-list parsing and grouping are correct", level="exploration",
                technique="rapidcheck model-based testing (std::set model, grammar-generated CPU lists, synthetic topologies with a validity predicate) + exhaustive enumeration of all short strings over a small alphabet; ASan+UBSan variant; libFuzzer target (coverage-guided, ASan+UBSan) over parseLinuxCpuList / parseCacheGroupsFromTopologySpec / buildGroupsFromCacheTopology with reference-parser and grammar-generated-document oracles inside",
                text="(a) op sequences over add/addRange/remove/removeRange/contains/count/clear with ids biased to 0, CPU_SETSIZE, INT32_MIN/MAX against a std::set clipped to [0,CPU_SETSIZE); (b) CPU lists generated from the kernel's grammar (ids up to 2^20, ranges, reversed ranges, trailing newline): parsed set equals the denoted in-range ids; (c) ALL 299593 strings of length <= 6 over {0,1,9,-,comma,space,newline,x}: no crash / sanitizer report, and exact set whenever a strict reference parser accepts the string; (d) synthetic topologies (L2 partitions sorted by first id, SMT-style sibling ids, L3 groups as unions of L2 groups or absent / partial, maxGroupSize 1..64): groups partition the L2 cpus, no L2 group split, no group with cpus of two known L3 groups, size <= max(maxGroupSize, largest L2), affinity mask == members; (e) libFuzzer: raw bytes to the CPU-list parser (strict reference parser as oracle on well-formed lists), raw bytes to the FreeBSD topology_spec parser (groups non-empty, sorted by first cpu, cache ids a permutation) and topology documents generated from the bytes by a grammar (nested groups, optional cache-level, own cpu lists, children): exactly the groups of the requested level, ids in document order.",
                note=RC_NOTE + " The FreeBSD topology-spec XML parser is exercised by C11's fuzz target only.", design_ref="§4 C43",
                parts=[rc("cpuset", "algebra"), rc("cpuset", "cpulist"), rc("cpuset", "strings"), rc("cpuset", "group"),
                       rc("cpuset", "strings", variant="rcasan"), rc("cpuset", "cpulist", variant="rcasan", quick=30000, thorough=300000),
                       rc("cpuset", "group", variant="rcasan", quick=30000, thorough=300000), FUZZ_CPUSET],
                assumptions=["topology inputs as the producers guarantee them: L2 groups disjoint, sorted by first cpu id, cpu ids >= 0", "exact-set oracle only for well-formed lists with ids <= 2^20 (the parser's documented clamp)"]),
})

SYNC_ASSUME = E1_ASSUME + ["programs are deadlock-free by construction and respect the documented contracts (single upgrader, unlock only what is held, no recursive locking)"]
CHECKS.update({
    "C22": dict(title="RWLock mutual exclusion and progress", level="exploration",
                technique="PBT over generated multi-thread lock programs under generated dsched schedules; oracle = exclusion monitor inside the critical sections + lock-free-at-end probe + deadlock/livelock detector",
                text="2-4 threads, each a generated list over lock / try_lock / lock_shared / try_lock_shared / lock-downgrade-unlock_shared, or (upgrade class: one designated upgrader, all other threads readers only) lock_shared-lock_upgrade-unlock / -lock_downgrade; critical sections update a (writers, readers) monitor around preemption points: writers <= 1, writers == 1 => readers == 0; after all threads finished the lock must be acquirable in both modes (a failed try left no trace); a blocked locker that is never released shows as the explorer's deadlock report, spinning forever as a confirmed livelock.",
                note=SC_NOTE, design_ref="§4 C22/C23", parts=[e1("sync2", "rwlock")], assumptions=SYNC_ASSUME),
    "C23": dict(title="DistributedRWLock mutual exclusion and progress", level="exploration",
                technique="PBT over generated reader/writer programs with generated thread-to-slot mappings under dsched schedules; oracle = exclusion monitor + free-at-end probe on every sub-lock + deadlock/livelock detector",
                text="DistributedRWLockImpl<N> for N in {1,2,4,16}; 2-4 threads over lock / try_lock / lock_shared(slot) / try_lock_shared(slot) with generated slot indices (including indices >= N that wrap); same monitor as C22; at the end try_lock() succeeds and every sub-lock grants shared access (a failed try_lock rolled back completely).",
                note=SC_NOTE + " The slot index is passed explicitly to the implementation class (the public wrapper derives it from threadId()).", design_ref="§4 C22/C23", parts=[e1("sync2", "drwlock")], assumptions=SYNC_ASSUME),
    "C24": dict(title="AsyncRequest delivers each update at most once", level="exploration",
                technique="PBT over generated consumer/producer histories under dsched schedules, built both as C++14 (detail::OpResult) and C++17 (std::optional); oracle = value ledger (unique tags, moved-from detection) + request/emplace/delivery accounting + quiescent round trip",
                text="1-3 consumers (requestUpdate, getUpdate) and 1-3 producers (tryEmplaceUpdate(unique tag), updateRequested), up to 5 ops each; every engaged getUpdate result carries a live (not moved-from) payload whose tag was successfully emplaced and has not been delivered before; successful emplaces never exceed started requests, deliveries never exceed successful emplaces; at quiescence request -> emplace -> get round-trips.",
                note=SC_NOTE + " Not a full linearizability check: the ledger conditions are necessary conditions of the sequential spec (each value at most once, only after a request).", design_ref="§4 C24",
                parts=[e1("sync2", "async", quick=3000), e1("sync2", "async", variant="dsched17", quick=3000, thorough=150000),
                       e1("sync2", "async", variant="dschedF", quick=8000, thorough=200000), e1("sync2", "async", variant="dschedF17", quick=3000, thorough=100000)],
                assumptions=E1_ASSUME + ["fine-grained parts (dschedF*): plain memory accesses of the harness and of AsyncRequest are schedule points too, so a consumer can be preempted in the middle of moving the stored value"]),
    "C25": dict(title="ResourcePool bounds and exclusivity", level="exploration",
                technique="PBT over generated acquire/hold/release programs (destruction, move construction, move-assignment onto a live handle) under dsched schedules; oracle = per-resource holder flag (CAS), held counter, constructor/destructor ledger, deadlock detector",
                text="Pool sizes 1-4, 2-5 threads; every acquired resource's holder flag is taken by CAS (failure = two handles on one resource); held <= size at all times; after all handles are gone all `size` resources can be acquired again and are distinct; each resource constructed and destroyed exactly once by the end of the pool; an acquirer that is never woken although resources are free shows as a deadlock report. Two-handle operations only when size >= threads+1 (otherwise the program itself could deadlock).",
                note=SC_NOTE + " 'acquire() blocks only while all resources are held' is checked through its consequence (no deadlock / lost wakeup), not by observing the blocking instant.", design_ref="§4 C25", parts=[e1("sync2", "respool")], assumptions=SYNC_ASSUME),
    "C45": dict(title="threadId is stable per thread and unique across threads", level="exploration",
                technique="PBT over thread counts / call counts under dsched schedules interleaving the first calls; oracle = per-thread constancy and pairwise distinctness over all threads of the case (including finished ones)",
                text="1-8 (thorough 12) threads per wave, 1-2 waves, each thread calls threadId() 1-5 times around preemption points and stays alive until its wave has reported; ids constant per thread, pairwise distinct across all threads of the process seen in the case, main thread included.",
                note=SC_NOTE, design_ref="§4 C45", parts=[e1("sync2", "tid")], assumptions=E1_ASSUME),
})

CHECKS.update({
    "C18": pool_check("A Future's functor runs once and every getter sees its result",
                      "Futures over ThreadPool / TaskSet / ConcurrentTaskSet / ImmediateInvoker / NewThreadInvoker x async/not-async x deferred/not-deferred x value/throwing functor, optionally with every worker gated so only waiters can run the functor; 1-3 threads each holding a copy run generated lists over get / wait / wait_for / wait_until / copy+move+destroy / is_ready, the creator may drop its handle early. Functor ledger == 1 (never twice, never zero after teardown, no overlapping executions), nothing reports readiness before the functor finished, all get() calls return the same object / rethrow the functor's exception, the heap-owning result object is destroyed exactly when the last copy goes.",
                      [e1("future", "fut")], "§4 C18",
                      technique="PBT over (schedulable, policies, outcome, waiter op lists) under generated dsched schedules; oracle = functor ledger + same-address / same-exception check + result lifetime balance"),
    "C19": pool_check("Future continuations and combinators respect readiness",
                      "then() chains of 1-4 links registered after a generated delay (before / during / after completion of the antecedent) on ThreadPool, TaskSet, ConcurrentTaskSet, ImmediateInvoker with and without std::launch::async; when_all over iterators (0-4 inputs, empty and singleton included) and tuples, when_any over iterators and tuples, task-set variants. Each continuation runs exactly once, only after its antecedent's functor finished and with is_ready() true; when_all's result is ready only after every input finished and holds the inputs in order; when_any's index designates a ready input; after taskSet.wait() the result future is ready.",
                      [e1("future", "then")], "§4 C19",
                      technique="PBT over combinator forms x registration delay x schedulables under generated dsched schedules; oracle = per-continuation ledger and readiness checks inside the continuation bodies"),
    "C20": pool_check("Timed waits: ready means done, timeout means time elapsed",
                      "CompletionEvent::waitFor / waitUntil and Future::wait_for / wait_until with requested timeouts from negative to 3 s in three duration representations and both clocks, a notifier / gate opener firing at a generated virtual instant (before, around, after the deadline, never), injected spurious futex returns; futures created through the constructor and through dispenso::async(pool, policy, f) with every policy combination while the only worker is busy. 'ready' only after notify()/the functor started (finished for futures); 'timeout' only after at least the requested virtual time (tolerance 2 ns: the implementation truncates to whole nanoseconds); a timeout is never reported when completion preceded the call; the timed wait runs a not-started functor on the waiter only if the deferred bit was given.",
                      [e1("future", "timed")], "§4 C20",
                      technique="PBT under dsched's virtual clock: exact elapsed-virtual-time predicate, generated notification instants and spurious wakeups"),
})

CHECKS.update({
    "C27": pool_check("Pipeline delivers every item through every stage exactly once",
                      "Pipelines of 1-5 stages (single-stage, generator, filter-capable and plain transforms, sink), written with stage(f, limit) for limits 1, 2, 3, pool+1, unlimited and as plain function objects (serial), 0-12 items, filtering by id, pools of 0-3 threads; heap-owning items that record how many stages they passed. At pipeline()'s return every generated id was seen exactly once by every stage up to the one that filtered it (or the sink) and by none after, each stage received its predecessor's output, no body is running or starts afterwards; all item objects are destroyed by the time the pool is gone.",
                      [e1("pipe", "pipe"), e1("pipe", "handoff")], "§4 C27/C28",
                      technique="PBT over pipeline shapes (stage count, limits, filters, item count, pool size) under generated dsched schedules; oracle = per-(stage,item) ledger + hop counter carried by each item"),
    "C28": pool_check("Pipeline stages never exceed their concurrency limit",
                      "Same generated pipelines as C27; every stage body (generator included) increments a per-stage counter around preemption points; the maximum observed must not exceed the limit given to stage(), and 1 for stages passed as plain function objects.",
                      [e1("pipe", "pipe")], "§4 C27/C28",
                      technique="PBT over pipeline shapes under generated dsched schedules; oracle = per-stage concurrent-invocation monitor"),
    "C29": dict(title="Pipeline exceptions terminate cleanly without leaks", level="fault_enumeration",
                technique="fault-injection PBT: throwing stage (every stage incl. generator and sink) x throw position (first / middle / last / random item) x pipeline shape x pool size under generated dsched schedules; oracle = termination (deadlock / livelock detector), rethrown tag, (stage,item) ledger, live-item registry after pool destruction, follow-up workload on the same pool",
                text="C27's pipelines with one (stage, item) pair that throws a tagged exception: pipeline() must terminate (an instance that never gives back its completion share shows as a deadlock / confirmed livelock), rethrow that tag, process no (stage,item) pair twice, leave no heap-owning item alive once the pool is destroyed (items in discarded queued tasks included), and the pool must afterwards run a plain task set and a fresh pipeline correctly.",
                note=SC_NOTE + " 'The generator stops producing once the exception is observed' is checked through termination only.", design_ref="§4 C29", parts=[e1("pipe", "fault")],
                assumptions=E1_ASSUME),
})

GRAPH_NOTE = "Native part: real threads, graphs of up to 300 nodes; E1 part: the concurrent executors on graphs of up to 11 nodes under generated dsched schedules. Generated programs follow the documented protocol (setAllNodesIncomplete before the first evaluation and after a subgraph clear + rebuild; ForwardPropagator once per marking round)."
CHECKS.update({
    "C30": dict(title="Graph executors respect dependencies and run each node once", level="exploration",
                technique="program-level PBT: generated DAG build / subgraph clear+rebuild programs against a shadow DAG, executed by all four executor forms natively and under dsched schedules; oracle = per-node ledger + start/end stamps vs every shadow predecessor",
                text="Random DAGs (Graph and BiPropGraph): 1-300 nodes placed in the graph's own and up to 3 subgraphs, nodes added in random order, edges only from lower to higher logical id but declared in random order and with duplicates, skewed fan-in, bidirectional edges; rounds of: clear a subgraph and rebuild its nodes with newly generated edges (incoming and outgoing cross-subgraph edges), setAllNodesIncomplete, execution of an already complete graph. Executors: SingleThread, ParallelFor over TaskSet and ConcurrentTaskSet, ConcurrentTaskSetExecutor, pools of 0-4 threads. Every incomplete node runs exactly once and starts after every incomplete predecessor finished; complete nodes do not run; every executed node reports isCompleted().",
                note=GRAPH_NOTE, design_ref="§4 C30", parts=[nat("graph", "native"), e1("graph", "e1")], assumptions=E1_ASSUME[:1] + ["graphs are acyclic by construction"]),
    "C31": dict(title="Graph partial re-evaluation runs exactly the propagated closure", level="exploration",
                technique="program-level PBT with a reference closure computed on the shadow DAG (forward reachability, then union of every bidirectional-propagation set that intersects it); oracle = the re-run ledger equals the reference set exactly, with dependency order among re-run nodes",
                text="C30's programs plus rounds that mark a random subset with setIncomplete(), run ForwardPropagator and execute: the set of nodes that ran equals the forward closure of the marked nodes plus all members of every bidirectional-propagation set intersecting it (sets as declared: a biprop edge merges the sets of both ends; a cleared node leaves its set) - nothing more, nothing less; order among re-run nodes as C30; setAllNodesIncomplete makes the next run a full evaluation.",
                note=GRAPH_NOTE + " Pulled-in set members do not propagate forward again (pinned from the suite's BiPropGraphTest and the statement).", design_ref="§4 C31",
                parts=[nat("graph", "native"), e1("graph", "e1")], assumptions=E1_ASSUME[:1] + ["graphs are acyclic by construction"]),
})

CONC_NOTE = SC_NOTE + " Elements are tagged, heap-owning objects; real-time order is judged from stamps of a global atomic clock taken around each call (a necessary condition of linearizability, not a full linearizability check)."
CHECKS.update({
    "C33": pool_check("ConcurrentVector concurrent growth is exact",
                      "2-4 growers with generated lists over push_back / emplace_back / grow_by(n,v) / grow_by_generator / grow_by(range) / grow_to_at_least, 264-byte elements (first bucket of 2, so a few elements cross bucket boundaries), three trait sets (default, half-buffer-ahead + heap buffer table + compact iterators, full-buffer-ahead), 0-2 readers re-reading published elements through saved references, 0-3 pre-existing elements. Every index handed out once, every tag present exactly once at its owner's index, size == total growth (>= with grow_to_at_least, extra elements default constructed), saved references still valid; the iterator returned by grow_to_at_least denotes an element of the vector; begin() / end() taken by readers during the growth: end() lies between size() before and after the call and compares equal to the iterator of its position once the growth is over.",
                      [e1("conc", "cvgrow", quick=5000)], "§4 C33",
                      technique="PBT over grower op lists x traits under generated dsched schedules; oracle = index ownership map + tag multiset + reference stability + iterator validity (distance and equality against begin()+d after the join)", note=CONC_NOTE),
    "C34": pool_check("MpmcRingBuffer is an exactly-once bounded FIFO",
                      "Capacities 2, 3 (exact), 4, 5 (exact), 3 rounded to 4, 8; 2-4 threads with lists over try_push / try_emplace / try_push_batch(2,3) / try_pop(T&) / try_pop() / try_pop_into. Ledger: every popped tag was pushed, none twice; occupancy lower bound never above capacity(); FIFO in real time (a pushed entirely before b is never popped entirely after it, nor left in the ring when b was popped); at quiescence size/empty/full agree, exactly capacity-size pushes succeed, the drain is FIFO; all element objects destroyed once the ring is gone. Failure of a single operation under contention is allowed (documented fail-fast).",
                      [e1("conc", "mpmc", quick=6000)], "§4 C34-C36", technique="PBT over producer/consumer op lists x capacities under generated dsched schedules; oracle = exactly-once ledger + occupancy bound + real-time FIFO + quiescent exactness + lifetime balance", note=CONC_NOTE),
    "C35": pool_check("SPSCRingBuffer is an exactly-once bounded FIFO",
                      "Capacities 1, 2 (exact), 3 (rounded), 5 (exact), 8 (rounded); exactly one producer thread (try_push by rvalue / lvalue / try_emplace / try_push_batch) and one consumer thread (try_pop variants, try_pop_batch). The consumer must receive 0,1,2,... exactly; a push may fail only if the ring could have been full given the pops completed before the call, a pop only if it could have been empty; quiescent exactness and lifetime balance as C34.",
                      [e1("conc", "spsc")], "§4 C34-C36", technique="PBT over producer and consumer op lists x capacities under generated dsched schedules; oracle = strict sequence check + may-fail-only-if rules + quiescent exactness", note=CONC_NOTE),
    "C36": pool_check("ChaseLevDeque delivers each element exactly once",
                      "Capacities 1, 2, 4, 8; int and 32-byte POD payloads; one owner (try_push, try_pop, try_pop_into) and 1-3 thieves (try_steal, try_steal_into). Every value returned at most once and only if pushed, never a mix of two pushed values; a successful owner pop returns the newest element the owner has not popped; when a steal of v has returned no older element may remain untaken or be taken by an operation that started later; an owner pop may fail only if everything left was taken by thieves; a push may fail only with capacity elements unpopped; at quiescence pops come newest-first, steals oldest-first, both fail iff empty.",
                      [e1("conc", "cld"), e1("conc", "cld", variant="dschedF", quick=3000, thorough=80000), nat("conc", "cld", quick=1500, thorough=60000)], "§4 C34-C36", technique="PBT over owner / thief op lists x payload type (int, 32-byte POD whose words all encode the id) under generated dsched schedules, at atomic-operation granularity and at plain-memory-access granularity (slot copies are then schedule points), and natively with real threads; oracle = exactly-once ledger + torn-copy detector + owner-stack model + interval-based oldest-first rule + quiescent exactness", note=CONC_NOTE + " Fence-based reasoning on weaker hardware models is out of E1's reach (see C10)."),
    "C37": pool_check("ConcurrentObjectArena growth and copies are exact",
                      "Buffer sizes 1, 2, 3, 4, 8 (rounded up to powers of two by the class), 1-4 growers with grow_by(0..9) lists (any resulting buffer count: 1..64), then one of copy construction, copy assignment, move assignment, swap, move construction. Ranges disjoint and covering [0,size()); every new element default constructed (recognisable member initialisers) before its grower claims it; a reference taken before the growth stays valid; the copy / moved / swapped arena has the same size and contents and does not alias the original.",
                      [e1("conc", "arena", quick=6000)], "§4 C37", technique="PBT over grower lists x buffer sizes x copy operation under generated dsched schedules; oracle = index ownership map + default-value check + element-wise comparison of copies", note=CONC_NOTE),
    "C41": pool_check("SmallBufferAllocator hands out exclusive aligned blocks",
                      "Block sizes 8-256; 1-4 threads in 1-2 waves (threads of the first wave exit with cached blocks) with lists over alloc, dealloc, bursts of 10-40 allocations (central-store refill), hand-over of a block to another thread that frees it, approxBytesAllocatedSmallBuffer. Every block aligned to its size; a block carries its owner's canary from alloc to free: receiving a block that still carries a live canary, or finding one's canary overwritten, is a violation; diagnostics return sane values. Second part: the same programs with real threads under ThreadSanitizer (any report = violation) - the consequence of a broken internal lock is a race on plain memory, which the schedule explorer cannot see.",
                      [e1("conc", "sba"), nat("conc", "sba", variant="tsan", quick=2000, thorough=60000)], "§4 C41",
                      technique="PBT over alloc/free histories under generated dsched schedules (canary ownership oracle) + the same generator natively under TSan (happens-before race detector as oracle)", note=CONC_NOTE),
    "C42": pool_check("PoolAllocator hands out exclusive chunks within its slabs",
                      "Thread-safe and no-lock allocator, chunk sizes 8-100, slabs of 1-6 chunks plus odd remainders, counting allocFunc/deallocFunc; 1-4 threads (1 for the no-lock variant) with alloc/dealloc lists, optional clear() followed by 0-12 allocations. Every chunk inside a slab obtained from allocFunc at a chunk-multiple offset, never handed out while its canary is live, canaries never overwritten; after clear() no allocFunc call until the existing slabs' capacity is used up; deallocFunc called exactly once per slab by the destructor.",
                      [e1("conc", "pool", quick=6000)], "§4 C42", technique="PBT over alloc/dealloc/clear histories under generated dsched schedules; oracle = slab ledger + chunk canaries + allocFunc call counting", note=CONC_NOTE),
})

CHECKS.update({
    "C26": pool_check("TimedTask run count, cancellation and teardown",
                      "A private TimedTaskScheduler under the virtual clock (hook: getTime() through std::chrono); executors ImmediateInvoker and ThreadPool(1-2); periods 0 / 20 us / 0.3 ms / 2 ms, timesToRun 1-5 and unbounded, steady and normal, first run in the past / now / future, a run that returns false at a generated index, and a controller that lets the task finish, cancels, destroys or detaches+destroys it at a generated virtual instant. Invocations <= timesToRun; nothing before the first scheduled time (10 us firing margin); after a false return / after cancel() returned at most the invocations already past their check (<= number of executors, 0 further for ImmediateInvoker) may begin; after a non-detached destructor returned no invocation is in progress and none ever starts; the function object is never invoked after destruction and every copy of it is destroyed in the end. Crashes (terminate, SIGSEGV with heap poisoning) are violations.",
                      [e1("timed", "timed", quick=6000)], "§4 C26",
                      technique="PBT over (executor, period, count, first-run time, false-return index, controller action and instant) under generated dsched schedules and the virtual clock; oracle = invocation log with virtual timestamps + function-object lifetime counters + crash detection with poisoned heap"),
})


# ---- C10 / C11: the generated API-usage programs of the other properties' harnesses, run natively with real threads
# under a sanitizer. The sanitizer is the oracle (--san-only): a semantic verdict that depends on virtual time or on the
# explorer's thread-state queries is not valid natively and is recorded as inconclusive instead.
def san(harness, prop, part, variant, quick, thorough):
    return dict(harness=harness, variant=variant, part=part, prop=prop, args=["--san-only"], quick=quick, thorough=thorough)


def san_parts(variant, scale=1.0):
    t = [("pool", "C01", "prog", 120), ("pool", "C02", "prog", 250), ("pool", "C02", "forkjoin", 80), ("pool", "C03", "prog", 60), ("pool", "C04", "cancel", 200),
         ("pool", "C05", "prog", 80), ("pool", "C06", "prog", 100), ("pool", "C47", "prog", 80), ("pool", "C08", "probe", 40),
         ("pool", "C46", "chain", 20),
         ("sync2", "C22", "rwlock", 400), ("sync2", "C23", "drwlock", 400), ("sync2", "C24", "async", 400), ("sync2", "C25", "respool", 300),
         ("sync2", "C45", "tid", 200),
         ("future", "C18", "fut", 300), ("future", "C19", "then", 400), ("future", "C20", "timed", 400),
         ("pipe", "C27", "pipe", 300), ("pipe", "C27", "handoff", 300), ("pipe", "C28", "pipe", 300), ("pipe", "C29", "fault", 300),
         ("graph", "C30", "native", 1000), ("graph", "C31", "native", 1000),
         ("loops", "C12", "native", 200), ("loops", "C13", "native", 200), ("loops", "C14", "native", 150), ("loops", "C48", "native", 150),
         ("loops", "C48", "fe-native", 150), ("loops", "C15", "native", 200), ("loops", "C16", "native", 200),
         ("timed", "C26", "timed", 400),
         ("conc", "C33", "cvgrow", 800), ("conc", "C34", "mpmc", 800), ("conc", "C35", "spsc", 800), ("conc", "C36", "cld", 800),
         ("conc", "C37", "arena", 800), ("conc", "C41", "sba", 800), ("conc", "C42", "pool", 800)]
    return [san(h, p, part, variant, max(10, int(q * scale)), max(10, int(q * scale)) * 8) for h, p, part, q in t]


# UBSan alone, with glibc's allocator: ASan's allocator over-aligns every block and thereby hides misaligned construction
# of over-aligned types (C++14: std::allocator / plain new do not honour alignas(64))
UBSAN_ONLY = [san(h, p, part, "ubsan", q, q * 8) for h, p, part, q in
              [("pool", "C01", "prog", 150), ("pool", "C02", "forkjoin", 100), ("pool", "C05", "prog", 100), ("pool", "C04", "cancel", 200),
               ("future", "C18", "fut", 400), ("future", "C19", "then", 400), ("pipe", "C29", "fault", 300), ("graph", "C31", "native", 600),
               ("timed", "C26", "timed", 300), ("sync2", "C25", "respool", 300), ("conc", "C33", "cvgrow", 1000), ("conc", "C37", "arena", 1000),
               ("conc", "C41", "sba", 1000), ("conc", "C42", "pool", 1000)]]
# Under the schedule explorer the lifetime ledgers of these harnesses are leak oracles that do not depend on the
# machine's natural schedule (every payload / functor / result object constructed must be destroyed once the structure
# is gone), and the explorer's heap poisoning reports writes to freed blocks.
E1_LIFETIME = [dict(harness=h, variant="dsched", part=part, prop=p, quick=q, thorough=q * 30) for h, p, part, q in
               [("pipe", "C29", "fault", 1500), ("timed", "C26", "timed", 1200), ("future", "C18", "fut", 2000), ("conc", "C34", "mpmc", 1500),
                ("conc", "C35", "spsc", 1500), ("pool", "C05", "prog", 1200)]]
SAN_PROGRAMS = ("The generated programs of the harnesses behind C01-C06, C08, C12-C16, C18-C20, C22-C31, C33-C37, C41, C42, C45-C48 "
                "(thread pool producers / task sets / bulk and forced-queue submission / resize / cancellation / throwing tasks / nested waits, "
                "parallel_for / for_each / parallel_invoke shapes, futures and continuations on five schedulers, pipelines incl. throwing stages, "
                "task graphs with partial re-evaluation, RW locks, AsyncRequest, ResourcePool, TimedTask incl. cancel / destroy / detach, "
                "concurrent growth of ConcurrentVector and ConcurrentObjectArena, MPMC / SPSC rings, Chase-Lev deque, small-buffer and pool allocators) "
                "run with REAL threads, ")
CHECKS.update({
    "C10": dict(title="No data races under the weak memory model", level="exploration",
                technique="program-level PBT: the generators of 38 harness parts produce API-usage programs within the documented thread-safety contract; each runs natively under ThreadSanitizer (happens-before race detector over the declared memory orders, locks and the library's own annotations), any report is a violation; harness bookkeeping uses relaxed atomics only so that it adds no happens-before edges of its own",
                text=SAN_PROGRAMS + "compiled with -fsanitize=thread, one report ends the case (halt_on_error) and is attributed to it. Data handed between threads by the operation under test (task closures, queue elements, future results, pipeline items, allocator blocks) is plain memory, so a missing release/acquire edge inside the library shows up as a race on it.",
                note="TSan sees the schedules the machine happens to produce (16 cores, 2-20 threads per program), not all of them; it models release/acquire/seq_cst and locks, and standalone fences only approximately (the library's TSAN annotations cover its fence-based paths). The interleaving dimension of the same programs is explored by the dsched parts of the individual properties.",
                design_ref="§4 C10", parts=san_parts("tsan"),
                assumptions=["ThreadSanitizer (clang 14) is a sound happens-before detector for the operations it models; reports inside the harness itself were removed by construction (relaxed-atomic bookkeeping)",
                             "covers the paths the generated programs execute under the machine's natural schedules; not an enumeration of interleavings"]),
    "C11": dict(title="Memory safe and leak free, including error paths", level="exploration",
                technique="program-level PBT: the same generated programs (incl. throwing tasks, cancellation, pipelines unwinding after an exception, detach / destroy of timed tasks, pool teardown) run natively under AddressSanitizer + UndefinedBehaviourSanitizer with a LeakSanitizer check after every case; plus the rapidcheck container-history models (ConcurrentVector, SmallVector, OnceFunction, OpResult, CpuSet parsers) under ASan/UBSan; the libFuzzer target over the CpuSet text parsers; the error-path harnesses with lifetime ledgers (pipeline faults, TimedTask teardown, Future results, ring elements, throwing tasks) also run under the dsched schedule explorer, where the ledger is the leak oracle and freed blocks are poisoned and scanned for later writes",
                text=SAN_PROGRAMS + "compiled with -fsanitize=address,undefined (-fno-sanitize-recover), LeakSanitizer run after each case: out-of-bounds, use-after-free, UB and leaked allocations are violations; a subset again with -fsanitize=undefined alone on glibc malloc (ASan's allocator over-aligns and hides misaligned construction of cache-line-aligned types). Stateful container histories (insert / erase / grow / shrink / move / swap / clear over element types with lifetime tracking) run under the same sanitizers via rapidcheck.",
                note="Exception, cancellation and shutdown paths are reached by construction (generators of C04, C05, C29, C26, C09-style teardown). Leak check = allocations of a case that are neither freed nor reachable when the case ends.",
                design_ref="§4 C11",
                parts=san_parts("asan", 1.5) + UBSAN_ONLY + E1_LIFETIME + [dict(harness="cvec", variant="rcasan", part="model", prop="C32", quick=20000, thorough=400000),
                                                 dict(harness="small", variant="rcasan", part="model", prop="C38", quick=20000, thorough=400000),
                                                 dict(harness="small", variant="rcasan", part="once", prop="C39"),
                                                 dict(harness="small", variant="rcasan", part="model", prop="C40", quick=20000, thorough=400000),
                                                 dict(harness="cpuset", variant="rcasan", part="cpulist", prop="C43", quick=20000, thorough=300000), FUZZ_CPUSET],
                assumptions=["ASan / UBSan / LSan (clang 14) report every violation of their class on executed paths",
                             "covers the paths the generated programs and histories execute"]),
})
