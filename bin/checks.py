"""Table of property checks: which harness parts decide which property (DESIGN.md §4).
MANIFEST.json is generated from this table by bin/mkmanifest."""

E1 = "E1 dsched schedule exploration"


def e1(harness, part, variant="dsched", **kw):
    d = dict(harness=harness, variant=variant, part=part)
    d.update(kw)
    return d


def nat(harness, part, variant="native", **kw):
    d = dict(harness=harness, variant=variant, part=part)
    d.update(kw)
    return d


SC_NOTE = "Explores sequentially consistent interleavings at atomic-operation granularity (2-8 threads, bounded programs); weak-memory-only failures are C10's subject. Sampled, not enumerated. Linux futex back end, small tuning constants (spin 16, wake group 2) in the quick tier."
E1_ASSUME = ["dsched serialises threads and models futex/mutex/condvar/semaphore/clock per their specifications; schedule points = atomic operations and blocking calls",
             "SC interleavings only; plain-memory races and weak-memory reorderings are checked by C10 (TSan)"]


def pool_check(title, text, parts, ref, technique=None, note=None):
    return dict(title=title, level="exploration",
                technique=technique or "program-level PBT: generated pool programs (producers, task sets, bulk/FQ submissions, nested waits, resizes) run under generated schedules by the dsched explorer; oracle = ledger / barrier / monitor over the execution",
                text=text, note=note or SC_NOTE, design_ref=ref, parts=parts, assumptions=E1_ASSUME)


CHECKS = {
    "C01": pool_check("Every task handed to a ThreadPool runs exactly once",
                      "Generated multi-producer programs over schedule / schedule(FQ) / scheduleBulk (external and in-pool producers, pools of 0-6 threads, wake and poll mode) under generated interleavings; ledger oracle: after ~ThreadPool returns every submitted functor ran exactly once and none starts later.",
                      [e1("pool", "prog")], "§4 C01"),
    "C02": pool_check("Task-set wait is a completion barrier",
                      "Programs with TaskSet / ConcurrentTaskSet (light, heavy), single/bulk/FQ submissions, shared sets, nested sets and parallel_for; at the return of every wait(), tryWait()==true and destructor all tasks submitted before have finished, each body ran once.",
                      [e1("pool", "prog"), e1("pool", "forkjoin")], "§4 C02"),
    "C03": pool_check("Pool resize never loses, duplicates or strands work",
                      "C02-style programs with a concurrent resizer thread (grow, shrink, zero); ledger + barrier + termination oracle (explorer deadlock report, fair-schedule livelock confirmation).",
                      [e1("pool", "prog")], "§4 C03"),
    "C04": pool_check("Cancelled task sets start no further task bodies",
                      "Generated cancellation scenarios: trigger (cancel(), throwing task, parent cascade) x set kind x submission form (single, bulk, FQ) x load (idle, gated+saturated pool, pool-recursive overloaded caller) x scenario (submit after cancel returned / queued behind gates then cancelled); oracle: no forbidden body runs, wait() reports cancellation.",
                      [e1("pool", "cancel")], "§4 C04",
                      technique="scenario-family PBT under dsched schedules; oracle = forbidden-body counter (bodies whose submission began after cancel() returned, or that were queued behind gates at cancel time)"),
    "C05": pool_check("Task exceptions are captured and rethrown exactly once",
                      "Programs whose set tasks throw tagged exceptions on inline and queued paths; exception ledger: every delivered tag was thrown, none delivered twice, a wait that observes completion of a set with a captured exception rethrows, none rethrown without a capture, barrier intact.",
                      [e1("pool", "prog")], "§4 C05"),
    "C06": pool_check("Nested waits never deadlock through pool starvation",
                      "Acyclic nesting programs (tasks creating child sets / parallel_for and waiting, depth <= 3, heavy and light costs, idle phases so workers park) on pools of 0-6 threads; termination oracle: explorer deadlock report or fair-schedule livelock confirmation is a violation, budget overrun is inconclusive.",
                      [e1("pool", "prog")], "§4 C06"),
    "C07": pool_check("Submissions to an idle pool start without the sleep backstop",
                      "All workers parked (virtual sleep, checked), one producer submits by one of 12 paths; virtual-time oracle: if the explorer has to jump the clock to a worker's idle-sleep deadline before all submitted work has started, the start depended on the backstop. Exact, no wall clock. Failures are classified by where the unstarted work sat (hook H2).",
                      [e1("pool", "idle")], "§4 C07",
                      technique="PBT over (pool size, submission path, task count) x generated schedules and futex-wake victim choices under dsched's virtual clock; oracle = no virtual-time jump to a worker backstop before all work started"),
    "C08": pool_check("Pool work accounting returns to zero at quiescence",
                      "Generated history (task sets, bulk ring submissions racing resize) brought to quiescence, then a black-box probe: with all workers gated, count the schedule() calls before the first inline run and compare with a fresh pool of the same size and multiplier.",
                      [e1("pool", "probe")], "§4 C08",
                      technique="differential PBT: inline-threshold of the pool after a generated history vs a fresh pool (same child process), histories run under dsched schedules"),
    "C09": pool_check("Pool shutdown and resize always complete",
                      "Workers driven into generated state mixes (busy, spinning, parking, parked), then ~ThreadPool / resize / setSignalingWake; oracle: returns without any virtual-time jump to a worker backstop (wake mode), within 50 ms virtual (poll mode), explorer thread table shows exactly the new configuration's workers alive.",
                      [e1("pool", "stop")], "§4 C09",
                      technique="PBT over worker-state mixes x stop/resize/mode-switch under dsched's virtual clock; oracle = no backstop jump + thread-table census + deadlock/livelock detector"),
    "C46": pool_check("Inline task execution never grows the stack without bound",
                      "Chains of L tasks each scheduling the next under overload (pool.schedule, TaskSet, ConcurrentTaskSet light/heavy, bulk); metamorphic oracle: the per-thread nesting depth for a 6-10x longer chain may not exceed depth(L)+4 unless it stays under an absolute constant (48).",
                      [e1("pool", "chain")], "§4 C46",
                      technique="metamorphic PBT (chain length L vs scale*L) with a per-thread nesting counter, executed under dsched"),
    "C47": pool_check("ForceQueuingTag never runs the functor on the caller",
                      "C01/C02-style programs on pools >= 1 thread with small load multipliers (inline paths reachable); each force-queued body checks it is not running on its submitter before the submitting call returned.",
                      [e1("pool", "prog")], "§4 C47"),
    "C21": dict(
        title="CompletionEvent and Latch waits never miss a wakeup",
        level="exploration",
        technique="stateful PBT over generated latch/event programs, schedules generated by the dsched explorer (real code, serialised threads, modelled futex); oracle = early-return monitor + deadlock detector",
        text="Generated programs (2-4 threads, latch counts 1-8, count_down(n>1), arrive_and_wait, wait, try_wait; 1-4 event waiters) are executed under thousands of generated interleavings, futex-wake orders and spurious futex returns; a missed wakeup shows as an explorer deadlock report, an early return through the started-decrements monitor.",
        note=SC_NOTE,
        design_ref="§4 C21",
        parts=[e1("sync", "latch"), e1("sync", "event")],
        assumptions=E1_ASSUME,
    ),
}


def custom_run(prop, part, tier, seed, sigs):
    raise NotImplementedError


def custom_replay(prop, part, r, path):
    raise NotImplementedError


def custom_known(prop, part, k):
    raise NotImplementedError
NOT_YET = {}
