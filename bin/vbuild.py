#!/usr/bin/env python3
"""Build dispenso (from /repo's current working tree) and the harness binaries per variant.

Variants (DESIGN.md §3):
  dsched   clang++, TSan instrumentation of atomics only, linked against engine/dsched (E1), small tuning
  dschedD  same with dispenso's default tuning constants
  dsched17 same as dsched but -std=c++17 (OpResult == std::optional)
  native   g++ -O1 -g, asserts on (E2 / native PBT)
  asan     clang++ -fsanitize=address,undefined
  ubsan    clang++ -fsanitize=undefined (glibc malloc: alignment UB stays visible)
  tsan     clang++ -fsanitize=thread (full)
  fuzz     clang++ -fsanitize=fuzzer,address,undefined (libFuzzer targets)
Everything is keyed by a hash of /repo/dispenso/** so an edited tree is always rebuilt.
"""
import concurrent.futures
import fcntl
import hashlib
import os
import subprocess
import sys
import time

VERIF = os.path.dirname(os.path.dirname(os.path.abspath(__file__)))
REPO = os.environ.get("VERIF_REPO", "/repo")
BUILD = os.path.join(VERIF, "build")
GUARD = "DISPENSO_VERIF"

SMALL_TUNE = [
    "-DDISPENSO_TUNE_FIXED_SPIN_ITERS=16",
    "-DDISPENSO_TUNE_SPIN_CHECK_INTERVAL=4",
    "-DDISPENSO_TUNE_CROSS_RING_FAIL_THRESHOLD=4",
    "-DDISPENSO_TUNE_WAKE_GROUP_SIZE=2",
    "-DDISPENSO_TUNE_STEAL_RING_SHARING=2",
]
TSAN_ATOMICS = [
    "-fsanitize=thread",
    "-mllvm", "-tsan-instrument-memory-accesses=0",
    "-mllvm", "-tsan-instrument-func-entry-exit=0",
    "-mllvm", "-tsan-instrument-memintrinsics=0",
]
# fine-grained mode: plain memory accesses are schedule points too (dsched's __tsan_read/write shims)
TSAN_FINE = [
    "-fsanitize=thread",
    "-mllvm", "-tsan-instrument-memory-accesses=1",
    "-mllvm", "-tsan-instrument-func-entry-exit=0",
    "-mllvm", "-tsan-instrument-memintrinsics=1",
]
COMMON = ["-g", "-O1", "-I" + REPO, "-I" + REPO + "/dispenso/third-party", "-I" + VERIF + "/engine",
          "-D" + GUARD, "-pthread", "-fno-omit-frame-pointer", "-Wno-deprecated-declarations"]

VARIANTS = {
    "dsched": dict(cxx="clang++", std="c++14", flags=TSAN_ATOMICS + SMALL_TUNE + ["-DVF_E1"], link=[], dsched=True),
    "dschedD": dict(cxx="clang++", std="c++14", flags=TSAN_ATOMICS + ["-DVF_E1"], link=[], dsched=True),
    "dsched17": dict(cxx="clang++", std="c++17", flags=TSAN_ATOMICS + SMALL_TUNE + ["-DVF_E1"], link=[], dsched=True),
    "dschedF": dict(cxx="clang++", std="c++14", flags=TSAN_FINE + SMALL_TUNE + ["-DVF_E1"], link=[], dsched=True, fine=True),
    "dschedF17": dict(cxx="clang++", std="c++17", flags=TSAN_FINE + SMALL_TUNE + ["-DVF_E1"], link=[], dsched=True, fine=True),
    "native": dict(cxx="clang++", std="c++14", flags=[], link=[], dsched=False),
    "native17": dict(cxx="clang++", std="c++17", flags=[], link=[], dsched=False),
    "asan": dict(cxx="clang++", std="c++14",
                 flags=["-fsanitize=address,undefined", "-fno-sanitize-recover=undefined"],
                 link=["-fsanitize=address,undefined"], dsched=False),
    "ubsan": dict(cxx="clang++", std="c++14",
                  flags=["-fsanitize=undefined", "-fno-sanitize-recover=undefined"],
                  link=["-fsanitize=undefined"], dsched=False),
    "tsan": dict(cxx="clang++", std="c++14", flags=["-fsanitize=thread"], link=["-fsanitize=thread"], dsched=False),
    "rc": dict(cxx="clang++", std="c++14", flags=[], link=["-lrapidcheck"], dsched=False, norunner=True),
    "rc17": dict(cxx="clang++", std="c++17", flags=[], link=["-lrapidcheck"], dsched=False, norunner=True),
    "rcasan": dict(cxx="clang++", std="c++14",
                   flags=["-fsanitize=address,undefined", "-fno-sanitize-recover=undefined"],
                   link=["-fsanitize=address,undefined", "-lrapidcheck"], dsched=False, norunner=True),
    "rcasan17": dict(cxx="clang++", std="c++17",
                     flags=["-fsanitize=address,undefined", "-fno-sanitize-recover=undefined"],
                     link=["-fsanitize=address,undefined", "-lrapidcheck"], dsched=False, norunner=True),
    "fuzz": dict(cxx="clang++", std="c++17",
                 flags=["-fsanitize=fuzzer-no-link,address,undefined", "-fno-sanitize-recover=undefined"],
                 link=["-fsanitize=fuzzer,address,undefined"], dsched=False, norunner=True),
}


def repo_hash():
    h = hashlib.sha1()
    root = os.path.join(REPO, "dispenso")
    files = []
    for d, _, fs in os.walk(root):
        for f in fs:
            if f.endswith((".h", ".cpp", ".hpp", ".inl")):
                files.append(os.path.join(d, f))
    for f in sorted(files):
        h.update(f.encode())
        with open(f, "rb") as fh:
            h.update(fh.read())
    return h.hexdigest()


def file_hash(paths):
    h = hashlib.sha1()
    for p in paths:
        h.update(p.encode())
        with open(p, "rb") as fh:
            h.update(fh.read())
    return h.hexdigest()


def lib_sources():
    out = []
    for d in (os.path.join(REPO, "dispenso"), os.path.join(REPO, "dispenso", "detail")):
        for f in sorted(os.listdir(d)):
            if f.endswith(".cpp"):
                out.append(os.path.join(d, f))
    return out


def run(cmd, **kw):
    p = subprocess.run(cmd, stdout=subprocess.PIPE, stderr=subprocess.STDOUT, text=True, **kw)
    if p.returncode != 0:
        sys.stderr.write("BUILD FAILED: %s\n%s\n" % (" ".join(cmd), p.stdout[-6000:]))
        raise SystemExit(2)
    return p.stdout


def read(p):
    try:
        with open(p) as f:
            return f.read()
    except OSError:
        return None


class Lock:
    def __init__(self, name):
        os.makedirs(BUILD, exist_ok=True)
        self.path = os.path.join(BUILD, "." + name + ".lock")

    def __enter__(self):
        self.f = open(self.path, "w")
        fcntl.flock(self.f, fcntl.LOCK_EX)
        return self

    def __exit__(self, *a):
        fcntl.flock(self.f, fcntl.LOCK_UN)
        self.f.close()


def compile_one(job):
    run(job)
    if "-tsan-instrument-memintrinsics=1" in job:
        # clang 14 turns memory intrinsics into calls to memcpy/memmove/memset (meant for the TSan runtime's
        # interceptors); point them at dsched's shims so that aggregate copies are schedule points too
        obj = job[job.index("-o") + 1]
        run(["objcopy", "--redefine-sym", "memcpy=__tsan_memcpy", "--redefine-sym", "memmove=__tsan_memmove",
             "--redefine-sym", "memset=__tsan_memset", obj])


def compile_many(jobs):
    """jobs: list of argv lists"""
    with concurrent.futures.ThreadPoolExecutor(max_workers=16) as ex:
        list(ex.map(compile_one, jobs))


def build_lib(variant, extra_flags=()):
    v = VARIANTS[variant]
    rh = repo_hash()
    d = os.path.join(BUILD, variant, "lib")
    os.makedirs(d, exist_ok=True)
    key = rh + " " + " ".join(v["flags"]) + " " + v["std"] + " " + " ".join(extra_flags)
    stamp = os.path.join(d, "stamp")
    objs = [os.path.join(d, os.path.basename(s)[:-4] + ".o") for s in lib_sources()]
    if read(stamp) == key and all(os.path.exists(o) for o in objs):
        return objs, rh
    jobs = []
    for s, o in zip(lib_sources(), objs):
        jobs.append([v["cxx"], "-std=" + v["std"]] + COMMON + v["flags"] + list(extra_flags) + ["-c", s, "-o", o])
    compile_many(jobs)
    with open(stamp, "w") as f:
        f.write(key)
    return objs, rh


def build_engine(variant):
    """dsched runtime + vf runner, compiled WITHOUT instrumentation."""
    v = VARIANTS[variant]
    d = os.path.join(BUILD, variant, "engine")
    os.makedirs(d, exist_ok=True)
    srcs = []
    if not v.get("norunner"):
        srcs.append(os.path.join(VERIF, "engine/common/vf_runner.cpp"))
    if v["dsched"]:
        srcs.append(os.path.join(VERIF, "engine/dsched/dsched.cpp"))
    elif not v.get("norunner"):
        srcs.append(os.path.join(VERIF, "engine/dsched/dsched_native.cpp"))
    hdrs = [os.path.join(VERIF, "engine/common/vf.h"), os.path.join(VERIF, "engine/dsched/dsched.h")]
    key = file_hash(srcs + hdrs) + v["std"] + " ".join(v["link"])
    stamp = os.path.join(d, "stamp")
    objs = [os.path.join(d, os.path.basename(s)[:-4] + ".o") for s in srcs]
    if read(stamp) == key and all(os.path.exists(o) for o in objs):
        return objs
    jobs = []
    san = []
    if variant in ("asan",):
        san = ["-fsanitize=address"]  # keep the runner compatible with the asan runtime
    for s, o in zip(srcs, objs):
        jobs.append(["clang++", "-std=c++17", "-g", "-O1", "-fno-omit-frame-pointer", "-I" + VERIF + "/engine"] + san +
                    ["-c", s, "-o", o])
    compile_many(jobs)
    with open(stamp, "w") as f:
        f.write(key)
    return objs


def build_harness(name, variant, src=None, extra_flags=(), extra_link=(), fine_tus=()):
    """Build /verif/harness/<name>.cpp for `variant`; returns the binary path.
    fine_tus: dispenso TUs to recompile with plain-access instrumentation (E1 fine-grained mode)."""
    v = VARIANTS[variant]
    t0 = time.time()
    with Lock(variant):  # library objects and engine are shared by all harnesses of a variant
        libobjs, rh = build_lib(variant)
        engobjs = build_engine(variant)
    with Lock(variant + "." + name):  # different harnesses of one variant build in parallel (bin/setup)
        src = src or os.path.join(VERIF, "harness", name + ".cpp")
        d = os.path.join(BUILD, variant, "bin")
        os.makedirs(d, exist_ok=True)
        out = os.path.join(d, name)
        # optional extra translation units (compiled in parallel): harness/<name>_parts/*.cpp
        pdir = os.path.join(VERIF, "harness", name + "_parts")
        parts = sorted(os.path.join(pdir, f) for f in os.listdir(pdir) if f.endswith(".cpp")) if os.path.isdir(pdir) else []
        hdir = os.path.join(VERIF, "harness")
        deps = [src] + parts + [os.path.join(VERIF, "engine/common", f) for f in sorted(os.listdir(os.path.join(VERIF, "engine/common")))
                                if f.endswith(".h")] + [os.path.join(hdir, f) for f in sorted(os.listdir(hdir)) if f.endswith(".h")]
        key = rh + file_hash(deps) + " ".join(v["flags"]) + " ".join(extra_flags) + " ".join(extra_link) + file_hash([os.path.join(d, "..", "engine", "stamp")])
        stamp = out + ".stamp"
        if read(stamp) == key and os.path.exists(out):
            return out
        hflags = [f for f in COMMON if f != "-g"] + ["-g1"]  # line tables only: template-heavy TUs compile much faster
        jobs = []
        objs = []
        for i, sfile in enumerate([src] + parts):
            obj = out + (".o" if i == 0 else ".p%d.o" % i)
            objs.append(obj)
            jobs.append([v["cxx"], "-std=" + v["std"]] + hflags + v["flags"] + list(extra_flags) + ["-c", sfile, "-o", obj])
        compile_many(jobs)
        run([v["cxx"]] + objs + engobjs + libobjs + v["link"] + ["-pthread", "-ldl"] + list(extra_link) + ["-o", out])
        with open(stamp, "w") as f:
            f.write(key)
        sys.stderr.write("[vbuild] %s/%s built in %.1fs\n" % (variant, name, time.time() - t0))
        return out


if __name__ == "__main__":
    if len(sys.argv) >= 3:
        print(build_harness(sys.argv[2], sys.argv[1]))
    else:
        print(repo_hash())
