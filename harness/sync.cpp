// Harness family "sync": C21 (Latch / CompletionEvent never miss a wakeup), run under dsched (E1).
#include <common/vf.h>
#include <dsched/dsched.h>

#include <dispenso/completion_event.h>
#include <dispenso/latch.h>

#include <atomic>
#include <chrono>
#include <memory>
#include <thread>
#include <vector>

using vf::Case;
using vf::KV;
using vf::Opts;
using vf::Rng;

// ------------------------------------------------------------------------------------------
// C21 latch. Program: `count`, T threads; thread op list = decrements first (d<n> = count_down(n),
// t = try_wait poll), then optionally a = arrive_and_wait, then w = wait / t. Σ decrements == count
// so the program is deadlock-free by construction (no thread needs a decrement that follows one of
// its own blocking calls).
static void genLatch(Rng& r, KV& kv, const Opts& o) {
  long count = r.range(1, o.thorough() ? 8 : 6);
  long T = r.range(2, 4);
  kv.set("count", count);
  kv.set("T", T);
  std::vector<std::string> ops((size_t)T);
  std::vector<bool> hasA((size_t)T, false);
  long left = count;
  // distribute decrements
  while (left > 0) {
    long t = r.range(0, T - 1);
    long n = 1;
    if (left > 1 && r.chance(1, 2))
      n = r.range(2, left);
    if (hasA[(size_t)t])
      continue; // that thread already ends with arrive_and_wait
    if (n == 1 && r.chance(1, 3)) {
      ops[(size_t)t] += "a,";
      hasA[(size_t)t] = true;
    } else {
      ops[(size_t)t] += "d" + std::to_string(n) + ",";
    }
    left -= n;
    bool allA = true;
    for (size_t i = 0; i < (size_t)T; ++i)
      allA = allA && hasA[i];
    if (allA && left > 0) { // nobody left to decrement: give the rest to thread 0 before its 'a'
      ops[0] = "d" + std::to_string(left) + "," + ops[0];
      left = 0;
    }
  }
  for (long t = 0; t < T; ++t) {
    std::string s = ops[(size_t)t];
    if (r.chance(1, 4))
      s = "t," + s;
    long tail = r.range(0, 2);
    for (long i = 0; i < tail; ++i)
      s += r.chance(2, 3) ? "w," : "t,";
    if (s.empty())
      s = "w,";
    kv.set("ops" + std::to_string(t), s);
  }
}

static std::vector<std::string> splitOps(const std::string& s) {
  std::vector<std::string> out;
  size_t i = 0;
  while (i < s.size()) {
    size_t j = s.find(',', i);
    if (j == std::string::npos)
      j = s.size();
    if (j > i)
      out.push_back(s.substr(i, j - i));
    i = j + 1;
  }
  return out;
}

static void runLatch(Case& c) {
  long count = c.p.i("count");
  long T = c.p.i("T");
  dispenso::Latch latch((uint32_t)count);
  std::atomic<long> started{0};  // Σ n over decrement calls that have been entered
  std::atomic<long> finished{0}; // Σ n over decrement calls that have returned
  std::atomic<int> parkedAtFinal{0};
  std::atomic<int> multiFinal{0};
  std::vector<std::thread> th;
  for (long t = 0; t < T; ++t) {
    auto ops = splitOps(c.p.s("ops" + std::to_string(t)));
    th.emplace_back([&, ops, t]() {
      for (auto& op : ops) {
        if (op[0] == 'd') {
          long n = strtol(op.c_str() + 1, nullptr, 10);
          long s = started.fetch_add(n) + n;
          if (s == count) {
            if (dsched_count_blocked(DS_WHY_FUTEX, 0) > 0)
              parkedAtFinal = 1;
            if (n > 1)
              multiFinal = 1;
          }
          latch.count_down((uint32_t)n);
          finished.fetch_add(n);
        } else if (op[0] == 'a') {
          long s = started.fetch_add(1) + 1;
          if (s == count && dsched_count_blocked(DS_WHY_FUTEX, 0) > 0)
            parkedAtFinal = 1;
          latch.arrive_and_wait();
          finished.fetch_add(1);
          VF_CHECK(c, started.load() == count, "early-return", "arrive_and_wait returned with only %ld of %ld decrements started",
                   started.load(), count);
        } else if (op[0] == 'w') {
          latch.wait();
          VF_CHECK(c, started.load() == count, "early-return", "wait returned with only %ld of %ld decrements started",
                   started.load(), count);
        } else if (op[0] == 't') {
          long fin = finished.load(); // read BEFORE the call: only then does "all returned" bind it
          bool z = latch.try_wait();
          if (z)
            VF_CHECK(c, started.load() == count, "try_wait-true-early", "try_wait true with %ld of %ld started", started.load(), count);
          else
            VF_CHECK(c, fin < count, "try_wait-false-late", "try_wait false although all %ld decrements returned", count);
        }
        dsched_progress();
      }
      (void)t;
    });
  }
  for (auto& t : th)
    t.join();
  VF_CHECK(c, latch.try_wait(), "not-zero-at-end", "latch not at zero after all decrements");
  c.nontrivial = parkedAtFinal.load() != 0;
  if (parkedAtFinal)
    c.cls("waiter_parked_at_final_decrement");
  if (multiFinal)
    c.cls("final_decrement_n>1");
  if (parkedAtFinal && multiFinal)
    c.cls("parked_and_final_n>1");
}

// ------------------------------------------------------------------------------------------
// C21 CompletionEvent: k waiters over {wait, waitFor(long), completed poll}, one notifier.
static void genEvent(Rng& r, KV& kv, const Opts&) {
  long W = r.range(1, 4);
  kv.set("W", W);
  kv.set("delay", r.range(0, 40)); // schedule points the notifier burns before notify()
  for (long i = 0; i < W; ++i) {
    std::string s;
    long n = r.range(1, 3);
    for (long k = 0; k < n; ++k)
      s += r.pick<const char*>({"w", "w", "f", "c"}), s += ",";
    kv.set("ops" + std::to_string(i), s);
  }
}

static void runEvent(Case& c) {
  long W = c.p.i("W");
  long delay = c.p.i("delay");
  dispenso::CompletionEvent ev;
  std::atomic<int> notifyStarted{0}, notifyDone{0}, parked{0};
  std::atomic<int> burn{0};
  std::vector<std::thread> th;
  for (long i = 0; i < W; ++i) {
    auto ops = splitOps(c.p.s("ops" + std::to_string(i)));
    th.emplace_back([&, ops]() {
      for (auto& op : ops) {
        if (op == "w") {
          ev.wait();
          VF_CHECK(c, notifyStarted.load() == 1, "early-return", "CompletionEvent::wait returned before notify() was called");
        } else if (op == "f") {
          bool ok = ev.waitFor(std::chrono::seconds(3600));
          if (ok)
            VF_CHECK(c, notifyStarted.load() == 1, "early-return", "waitFor returned true before notify() was called");
        } else {
          int nd = notifyDone.load(); // read BEFORE the call
          bool done = ev.completed();
          if (done)
            VF_CHECK(c, notifyStarted.load() == 1, "completed-early", "completed() true before notify()");
          else
            VF_CHECK(c, nd == 0, "completed-late", "completed() false after notify() returned");
        }
        dsched_progress();
      }
    });
  }
  std::thread nt([&]() {
    for (long i = 0; i < delay; ++i)
      burn.fetch_add(1);
    if (dsched_count_blocked(DS_WHY_FUTEX, 0) > 0)
      parked = 1;
    notifyStarted = 1;
    ev.notify();
    notifyDone = 1;
  });
  nt.join();
  for (auto& t : th)
    t.join();
  VF_CHECK(c, ev.completed(), "not-completed", "completed() false at end");
  c.nontrivial = parked.load() != 0;
  if (parked)
    c.cls("waiter_parked_at_notify");
}

static const vf::Prop kProps[] = {
    {"C21", "latch", genLatch, runLatch, vf::kE1, 6000, 200000,
     "a waiter was parked in the futex when the final decrement was issued"},
    {"C21", "event", genEvent, runEvent, vf::kE1, 3000, 100000, "a waiter was parked in the futex when notify() was called"},
};

int main(int argc, char** argv) {
  return vf::runMain(argc, argv, kProps, (int)(sizeof kProps / sizeof kProps[0]));
}
