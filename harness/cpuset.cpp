// Harness "cpuset" (E2 rapidcheck + enumeration; plain and ASan+UBSan): C43
//  algebra : CpuSet add/addRange/remove/removeRange/contains/count vs std::set<int> clipped to [0, CPU_SETSIZE)
//  cpulist : generated Linux cpulist strings -> exact-set oracle
//  strings : ALL strings up to length 6 over {0,1,9,-,',',' ','\n',x} -> clean handling + exact set when well formed
//  group   : synthetic cache topologies -> partition / no-split / no-L3-mix / size-bound oracle
#include <common/vrc.h>

#include <dispenso/cpu_set.h>

#include <sched.h>

#include <climits>
#include <set>

using vrc::Outcome;

static std::set<int> toSet(const dispenso::CpuSet& s, int hi = CPU_SETSIZE + 64) {
  std::set<int> o;
  for (int i = -8; i < hi; ++i)
    if (s.contains(i))
      o.insert(i);
  return o;
}
static std::string setStr(const std::set<int>& s) {
  std::string o = "{";
  int n = 0;
  for (int v : s) {
    if (n++ > 12) {
      o += "...";
      break;
    }
    o += std::to_string(v) + ",";
  }
  return o + "}";
}

// ------------------------------------------------------------------------------------------------
struct AOp {
  int kind;
  int64_t a, b;
};
static int32_t idOf(int64_t raw) {
  // edge-biased ids: around 0, around CPU_SETSIZE, int32 limits, anywhere
  int64_t sel = ((raw % 10) + 10) % 10;
  int64_t r = raw / 10;
  switch (sel) {
    case 0:
      return (int32_t)(r % 5 - 2);
    case 1:
      return (int32_t)(CPU_SETSIZE + r % 5 - 2);
    case 2:
      return INT32_MIN + (int32_t)(((r % 3) + 3) % 3);
    case 3:
      return INT32_MAX - (int32_t)(((r % 3) + 3) % 3);
    case 4:
      return (int32_t)r;
    default:
      return (int32_t)(((r % (CPU_SETSIZE + 40)) + (CPU_SETSIZE + 40)) % (CPU_SETSIZE + 40)) - 20;
  }
}
static Outcome algebraRun(const std::vector<AOp>& ops) {
  dispenso::CpuSet s;
  std::set<int> m;
  Outcome res;
  bool sawOut = false, sawRange = false;
  long idx = 0;
  for (auto& op : ops) {
    ++idx;
    int32_t a = idOf(op.a), b = idOf(op.b);
    int kind = ((op.kind % 6) + 6) % 6;
    std::string where = "op #" + std::to_string(idx) + " kind " + std::to_string(kind) + " a=" + std::to_string(a) + " b=" + std::to_string(b);
    if (a < 0 || a >= CPU_SETSIZE)
      sawOut = true;
    switch (kind) {
      case 0:
        s.add(a);
        if (a >= 0 && a < CPU_SETSIZE)
          m.insert(a);
        break;
      case 1:
        s.remove(a);
        m.erase(a);
        break;
      case 2: { // addRange [a, b)
        // keep the loop short for the model: ranges are clipped first (as the statement says: ids outside are ignored)
        sawRange = true;
        s.addRange(a, b);
        for (int64_t i = std::max<int64_t>(a, 0); i < std::min<int64_t>(b, CPU_SETSIZE); ++i)
          m.insert((int)i);
        break;
      }
      case 3: {
        sawRange = true;
        s.removeRange(a, b);
        for (int64_t i = std::max<int64_t>(a, 0); i < std::min<int64_t>(b, CPU_SETSIZE); ++i)
          m.erase((int)i);
        break;
      }
      case 4:
        if (s.contains(a) != (m.count(a) > 0))
          return Outcome::fail("contains-mismatch", where + ": contains() disagrees with the set model");
        break;
      default:
        s.clear();
        m.clear();
        break;
    }
    if (s.count() != (int32_t)m.size())
      return Outcome::fail("count-mismatch", where + ": count() = " + std::to_string(s.count()) + ", model has " + std::to_string(m.size()));
    if ((idx & 7) == 0 || idx == (long)ops.size())
      if (toSet(s) != m)
        return Outcome::fail("set-mismatch", where + ": members " + setStr(toSet(s)) + " differ from the model " + setStr(m));
  }
  res.nontrivial = sawOut && sawRange;
  return res;
}

// ------------------------------------------------------------------------------------------------
// cpulist grammar cases
struct Tok {
  int64_t lo, hi; // hi < 0: single id
};
struct ListCase {
  std::vector<Tok> toks;
  int trailer; // 0 none, 1 "\n", 2 " " before newline? (kernel prints "\n")
};
static std::string listString(const ListCase& c) {
  std::string s;
  for (size_t i = 0; i < c.toks.size(); ++i) {
    if (i)
      s += ",";
    s += std::to_string(c.toks[i].lo);
    if (c.toks[i].hi >= 0)
      s += "-" + std::to_string(c.toks[i].hi);
  }
  if (c.trailer == 1)
    s += "\n";
  return s;
}
static Outcome listRun(const ListCase& c) {
  std::string s = listString(c);
  dispenso::CpuSet got = dispenso::detail::parseLinuxCpuList(s.c_str());
  std::set<int> want;
  bool sawRange = false, sawOut = false;
  for (auto& t : c.toks) {
    if (t.hi < 0) {
      if (t.lo < CPU_SETSIZE)
        want.insert((int)t.lo);
      else
        sawOut = true;
    } else {
      sawRange = true;
      if (t.hi >= CPU_SETSIZE)
        sawOut = true;
      for (int64_t i = t.lo; i <= t.hi && i < CPU_SETSIZE; ++i)
        want.insert((int)i);
    }
  }
  std::set<int> g = toSet(got);
  if (g != want) {
    std::string shown = s;
    for (char& ch : shown)
      if (ch == '\n')
        ch = '$';
    return Outcome::fail("cpulist-mismatch", "parseLinuxCpuList(\"" + shown + "\") = " + setStr(g) + ", the list denotes " + setStr(want));
  }
  Outcome o;
  o.nontrivial = sawRange && sawOut;
  if (sawRange)
    o.classes.push_back("has_range");
  if (sawOut)
    o.classes.push_back("has_id>=CPU_SETSIZE");
  return o;
}

// strict reference parser for arbitrary short strings: accepts  (tok(,tok)*)?\n?  with tok = D+ | D+-D+
static bool strictParse(const std::string& s, std::set<int>& out) {
  std::string t = s;
  if (!t.empty() && t.back() == '\n')
    t.pop_back();
  if (t.empty())
    return true;
  size_t i = 0;
  while (true) {
    auto num = [&](int64_t& v) {
      size_t st = i;
      v = 0;
      while (i < t.size() && isdigit((unsigned char)t[i]) && i - st < 9) {
        v = v * 10 + (t[i] - '0');
        ++i;
      }
      return i > st && (i >= t.size() || !isdigit((unsigned char)t[i]));
    };
    int64_t lo, hi;
    if (!num(lo))
      return false;
    if (i < t.size() && t[i] == '-') {
      ++i;
      if (!num(hi))
        return false;
      if (lo > (1 << 20) || hi > (1 << 20))
        return false;
      for (int64_t k = lo; k <= hi && k < CPU_SETSIZE; ++k)
        out.insert((int)k);
    } else {
      if (lo > (1 << 20))
        return false;
      if (lo < CPU_SETSIZE)
        out.insert((int)lo);
    }
    if (i == t.size())
      return true;
    if (t[i] != ',')
      return false;
    ++i;
    if (i == t.size())
      return false; // trailing comma: not a well-formed list (handled by the clean-handling oracle only)
  }
}
static const char kAlphabet[] = {'0', '1', '9', '-', ',', ' ', '\n', 'x'};
static uint64_t stringsTotal() {
  uint64_t n = 0, p = 1;
  for (int len = 0; len <= 6; ++len) {
    n += p;
    p *= 8;
  }
  return n;
}
static std::string stringAt(uint64_t idx) {
  uint64_t p = 1;
  int len = 0;
  while (idx >= p) {
    idx -= p;
    p *= 8;
    ++len;
  }
  std::string s((size_t)len, '0');
  for (int i = 0; i < len; ++i) {
    s[(size_t)i] = kAlphabet[idx % 8];
    idx /= 8;
  }
  return s;
}
static Outcome stringRun(uint64_t idx, bool) {
  std::string s = stringAt(idx);
  dispenso::CpuSet got = dispenso::detail::parseLinuxCpuList(s.c_str()); // must not crash / trip a sanitizer
  std::set<int> want;
  Outcome o;
  if (strictParse(s, want)) {
    std::set<int> g = toSet(got, CPU_SETSIZE);
    if (g != want) {
      std::string shown = s;
      for (char& ch : shown)
        if (ch == '\n')
          ch = '$';
      return Outcome::fail("cpulist-mismatch", "parseLinuxCpuList(\"" + shown + "\") = " + setStr(g) + ", the list denotes " + setStr(want));
    }
    o.nontrivial = !want.empty();
    o.classes.push_back("well_formed");
  } else {
    if (got.count() < 0 || got.count() > CPU_SETSIZE)
      return Outcome::fail("cpulist-count", "count() out of range for a malformed list");
    o.classes.push_back("malformed_handled");
  }
  return o;
}

// ------------------------------------------------------------------------------------------------
// synthetic topologies
struct Topo {
  std::vector<std::vector<int>> l2; // partition of a cpu id set, sorted by first id
  std::vector<int> l3of;            // per L2 group: L3 group index, or -1 = not covered by any L3 group
  int maxGroup;
};
static std::string topoText(const Topo& t) {
  std::string s = std::to_string(t.maxGroup) + " |";
  for (size_t i = 0; i < t.l2.size(); ++i) {
    s += " " + std::to_string(t.l3of[i]) + ":";
    for (size_t k = 0; k < t.l2[i].size(); ++k)
      s += (k ? "," : "") + std::to_string(t.l2[i][k]);
  }
  return s;
}
static Topo topoParse(const std::string& t) {
  Topo o;
  o.maxGroup = atoi(t.c_str());
  size_t bar = t.find('|');
  if (bar != std::string::npos)
    for (auto& tok : vrc::split(t.substr(bar + 1), ' ')) {
      size_t c = tok.find(':');
      if (c == std::string::npos)
        continue;
      o.l3of.push_back(atoi(tok.substr(0, c).c_str()));
      std::vector<int> cpus;
      for (auto& f : vrc::split(tok.substr(c + 1), ','))
        cpus.push_back(atoi(f.c_str()));
      o.l2.push_back(cpus);
    }
  return o;
}
static Outcome topoRun(const Topo& t) {
  std::vector<dispenso::CacheGroup> l2, l3;
  std::map<int, std::vector<int32_t>> l3cpus;
  std::set<int> all;
  size_t largestL2 = 0;
  for (size_t i = 0; i < t.l2.size(); ++i) {
    dispenso::CacheGroup g;
    g.cacheId = (int32_t)i;
    for (int c : t.l2[i]) {
      g.cpus.push_back(c);
      all.insert(c);
      if (t.l3of[i] >= 0)
        l3cpus[t.l3of[i]].push_back(c);
    }
    largestL2 = std::max(largestL2, g.cpus.size());
    l2.push_back(g);
  }
  std::map<int, int> cpuL3;
  for (auto& kv : l3cpus) {
    dispenso::CacheGroup g;
    g.cacheId = kv.first;
    g.cpus = kv.second;
    std::sort(g.cpus.begin(), g.cpus.end());
    for (int c : g.cpus)
      cpuL3[c] = kv.first;
    l3.push_back(g);
  }
  auto groups = dispenso::detail::buildGroupsFromCacheTopology(l2, l3, t.maxGroup);
  std::string ctx = " [" + topoText(t) + "]";
  // partition of the union of L2 cpus
  std::map<int, int> groupOf;
  for (size_t gi = 0; gi < groups.size(); ++gi) {
    if (groups[gi].cpus.empty())
      return Outcome::fail("group-empty", "an empty thread group was produced" + ctx);
    if (!std::is_sorted(groups[gi].cpus.begin(), groups[gi].cpus.end()))
      return Outcome::fail("group-unsorted", "group cpu list not sorted" + ctx);
    for (int c : groups[gi].cpus) {
      if (!all.count(c))
        return Outcome::fail("group-foreign-cpu", "cpu " + std::to_string(c) + " is in a group but in no L2 group" + ctx);
      if (groupOf.count(c))
        return Outcome::fail("group-duplicate-cpu", "cpu " + std::to_string(c) + " is in two groups" + ctx);
      groupOf[c] = (int)gi;
      if (c < CPU_SETSIZE && !groups[gi].affinityMask.contains(c))
        return Outcome::fail("group-mask", "affinity mask lacks cpu " + std::to_string(c) + ctx);
    }
    if (groups[gi].affinityMask.count() > (int32_t)groups[gi].cpus.size())
      return Outcome::fail("group-mask", "affinity mask has cpus outside the group" + ctx);
    size_t bound = std::max<size_t>((size_t)std::max(t.maxGroup, 0), largestL2);
    if (groups[gi].cpus.size() > bound)
      return Outcome::fail("group-too-large", "group of " + std::to_string(groups[gi].cpus.size()) + " cpus exceeds max(maxGroupSize, largest L2) = " + std::to_string(bound) + ctx);
    std::set<int> l3seen;
    for (int c : groups[gi].cpus)
      if (cpuL3.count(c))
        l3seen.insert(cpuL3[c]);
    if (l3seen.size() > 1)
      return Outcome::fail("group-mixes-l3", "a group contains cpus of " + std::to_string(l3seen.size()) + " different known L3 groups" + ctx);
  }
  if (groupOf.size() != all.size())
    return Outcome::fail("group-missing-cpu", std::to_string(all.size() - groupOf.size()) + " cpu(s) of the L2 groups are in no thread group" + ctx);
  for (auto& g : t.l2) {
    std::set<int> gs;
    for (int c : g)
      gs.insert(groupOf[c]);
    if (gs.size() > 1)
      return Outcome::fail("l2-split", "an L2 group was split over " + std::to_string(gs.size()) + " thread groups" + ctx);
  }
  Outcome o;
  o.nontrivial = l3.size() >= 2 && (int)largestL2 > t.maxGroup;
  if (l3.size() >= 2)
    o.classes.push_back(">=2_L3_groups");
  if ((int)largestL2 > t.maxGroup)
    o.classes.push_back("L2_larger_than_maxGroupSize");
  bool partial = false;
  for (int v : t.l3of)
    if (v < 0)
      partial = true;
  if (partial && !l3.empty())
    o.classes.push_back("partial_L3_coverage");
  return o;
}
static rc::Gen<Topo> topoGen(bool) {
  // raw material: per cpu slot a (gap, l2-break, l3-break, l3-known) tuple; construction, not rejection
  auto slot = rc::gen::tuple(rc::gen::inRange(0, 4), rc::gen::inRange(0, 3), rc::gen::inRange(0, 5), rc::gen::inRange(0, 6));
  return rc::gen::map(rc::gen::tuple(rc::gen::container<std::vector<std::tuple<int, int, int, int>>>(rc::gen::resize(100, slot)),
                                     rc::gen::resize(100, rc::gen::inRange(0, 12)), rc::gen::resize(100, rc::gen::inRange(0, 3))),
                      [](const std::tuple<std::vector<std::tuple<int, int, int, int>>, int, int>& in) {
                        Topo t;
                        const auto& v = std::get<0>(in);
                        int mg = std::get<1>(in);
                        t.maxGroup = mg == 0 ? 1 : mg == 11 ? 64 : mg;
                        int interleave = std::get<2>(in); // 0: contiguous ids; 1: SMT siblings id, id+K
                        int cpu = 0, l3 = 0;
                        bool l3known = true;
                        std::vector<int> cur;
                        size_t n = std::min<size_t>(v.size(), 48);
                        for (size_t i = 0; i < n; ++i) {
                          cpu += 1 + (std::get<0>(v[i]) == 3 ? 2 : 0);
                          bool brk = std::get<1>(v[i]) == 0 || cur.empty();
                          if (brk && !cur.empty()) {
                            t.l2.push_back(cur);
                            t.l3of.push_back(l3known ? l3 : -1);
                            cur.clear();
                            if (std::get<2>(v[i]) == 0)
                              ++l3;
                            l3known = std::get<3>(v[i]) != 0;
                          }
                          cur.push_back(cpu);
                          if (interleave == 1 && cur.size() == 1)
                            cur.push_back(cpu + 1000); // sibling with a distant id (sorted by first id still holds)
                        }
                        if (!cur.empty()) {
                          t.l2.push_back(cur);
                          t.l3of.push_back(l3known ? l3 : -1);
                        }
                        for (auto& g : t.l2)
                          std::sort(g.begin(), g.end());
                        return t;
                      });
}

int main(int argc, char** argv) {
  std::vector<std::unique_ptr<vrc::PropBase>> props;
  props.push_back(vrc::make<std::vector<AOp>>(
      "C43", "algebra", 60000, 1500000, 60, 200, "the sequence uses an id outside [0, CPU_SETSIZE) and a range operation",
      [](bool) {
        auto op = rc::gen::map(rc::gen::tuple(rc::gen::inRange(0, 6), rc::gen::arbitrary<int64_t>(), rc::gen::arbitrary<int64_t>()),
                               [](const std::tuple<int, int64_t, int64_t>& t) { return AOp{std::get<0>(t), std::get<1>(t), std::get<2>(t)}; });
        return rc::gen::container<std::vector<AOp>>(rc::gen::resize(100, op));
      },
      [](const std::vector<AOp>& ops) {
        std::string s;
        for (auto& o : ops)
          s += std::to_string(o.kind) + "," + std::to_string(o.a) + "," + std::to_string(o.b) + " ";
        return s;
      },
      [](const std::string& t) {
        std::vector<AOp> ops;
        for (auto& tok : vrc::split(t, ' ')) {
          auto f = vrc::split(tok, ',');
          if (f.size() >= 3)
            ops.push_back(AOp{atoi(f[0].c_str()), strtoll(f[1].c_str(), nullptr, 10), strtoll(f[2].c_str(), nullptr, 10)});
        }
        return ops;
      },
      algebraRun));
  props.push_back(vrc::make<ListCase>(
      "C43", "cpulist", 200000, 4000000, 30, 60, "the list has at least one range token and at least one id >= CPU_SETSIZE",
      [](bool) {
        auto id = rc::gen::map(rc::gen::tuple(rc::gen::inRange(0, 8), rc::gen::inRange(0, 1 << 20)), [](const std::tuple<int, int>& t) -> int64_t {
          int sel = std::get<0>(t), r = std::get<1>(t);
          if (sel < 4)
            return r % 70;
          if (sel < 6)
            return CPU_SETSIZE - 3 + r % 6;
          if (sel == 6)
            return (1 << 20) - r % 3;
          return r;
        });
        auto tok = rc::gen::map(rc::gen::tuple(id, id, rc::gen::inRange(0, 3)), [](const std::tuple<int64_t, int64_t, int>& t) {
          int64_t a = std::get<0>(t), b = std::get<1>(t);
          if (std::get<2>(t) == 0)
            return Tok{a, -1};
          if (std::get<2>(t) == 1)
            return Tok{std::min(a, b), std::max(a, b)};
          return Tok{a, b}; // possibly reversed: denotes nothing
        });
        return rc::gen::map(rc::gen::tuple(rc::gen::container<std::vector<Tok>>(rc::gen::resize(100, tok)), rc::gen::resize(100, rc::gen::inRange(0, 2))),
                            [](const std::tuple<std::vector<Tok>, int>& t) { return ListCase{std::get<0>(t), std::get<1>(t)}; });
      },
      [](const ListCase& c) {
        std::string s = std::to_string(c.trailer) + " ";
        for (auto& t : c.toks)
          s += std::to_string(t.lo) + ":" + std::to_string(t.hi) + " ";
        return s;
      },
      [](const std::string& t) {
        ListCase c;
        auto f = vrc::split(t, ' ');
        c.trailer = f.empty() ? 0 : atoi(f[0].c_str());
        for (size_t i = 1; i < f.size(); ++i) {
          size_t col = f[i].find(':');
          if (col != std::string::npos)
            c.toks.push_back(Tok{strtoll(f[i].c_str(), nullptr, 10), strtoll(f[i].c_str() + col + 1, nullptr, 10)});
        }
        return c;
      },
      listRun));
  props.push_back(vrc::makeEnum(
      "C43", "strings", "every string of length <= 6 over {0,1,9,-,comma,space,newline,x} (299593 strings), enumerated; non-trivial = well formed and non-empty set",
      [](bool) -> uint64_t { return stringsTotal(); }, stringRun));
  props.push_back(vrc::make<Topo>("C43", "group", 150000, 3000000, 60, 100, ">= 2 L3 groups and an L2 group larger than maxGroupSize", topoGen, topoText, topoParse, topoRun));
  return vrc::runMain(argc, argv, props);
}
