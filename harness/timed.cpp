// Harness "timed" (E1 dsched, virtual clock, hook H1): C26 TimedTask run count, first-run time,
// cancellation and teardown.
#include <common/vf.h>
#include <dsched/dsched.h>

#include <dispenso/schedulable.h>
#include <dispenso/thread_pool.h>
#include <dispenso/timed_task.h>
#include <dispenso/timing.h>

#include <atomic>
#include <memory>
#include <thread>

using vf::Case;
using vf::KV;
using vf::Opts;
using vf::Rng;

static void burn(int n) {
  static std::atomic<int> sink{0};
  for (int i = 0; i < n; ++i)
    sink.fetch_add(1, std::memory_order_relaxed);
}

struct State {
  std::atomic<int> liveFunctors{0}, everBuilt{0};
  std::atomic<int> entered{0}, left{0}, inFlight{0};
  std::atomic<int> cancelReturned{0}, dtorReturned{0}, falseReturned{0};
  std::atomic<int> enteredAfterCancel{0}, enteredAfterDtor{0}, enteredAfterFalse{0}, invokedDead{0}, inFlightAtDtor{0};
  std::atomic<uint64_t> firstEntryNs{0};
  int falseAt = -1, burnN = 0;
};
// The user functor. Counts its live instances: the library must never invoke a destroyed one.
struct Fn {
  std::shared_ptr<State> st;
  uint32_t magic = 0xF00DF00Du;
  explicit Fn(std::shared_ptr<State> s) : st(std::move(s)) {
    st->liveFunctors.fetch_add(1);
    st->everBuilt.fetch_add(1);
  }
  Fn(const Fn& o) : st(o.st) {
    st->liveFunctors.fetch_add(1);
  }
  Fn(Fn&& o) noexcept : st(o.st) { // keep the source's state pointer: it stays a countable instance
    st->liveFunctors.fetch_add(1);
  }
  ~Fn() {
    magic = 0xDEADDEADu;
    st->liveFunctors.fetch_sub(1);
  }
  bool operator()() const {
    State& s = *st;
    if (magic != 0xF00DF00Du)
      s.invokedDead.fetch_add(1);
    int n = s.entered.fetch_add(1);
    if (n == 0)
      s.firstEntryNs = dsched_now();
    s.inFlight.fetch_add(1);
    if (s.dtorReturned.load())
      s.enteredAfterDtor.fetch_add(1);
    if (s.cancelReturned.load())
      s.enteredAfterCancel.fetch_add(1);
    if (s.falseReturned.load())
      s.enteredAfterFalse.fetch_add(1);
    burn(s.burnN);
    dsched_progress();
    bool keep = !(s.falseAt >= 0 && n >= s.falseAt);
    if (!keep)
      s.falseReturned = 1;
    s.inFlight.fetch_sub(1);
    s.left.fetch_add(1);
    return keep;
  }
};

static void genC26(Rng& r, KV& kv, const Opts&) {
  kv.set("kind", r.pick<long>({0, 0, 1, 1, 1})); // 0 ImmediateInvoker 1 ThreadPool (NewThreadInvoker does not compile as a TimedTask schedulable in this tree)
  kv.set("n", r.range(1, 2));
  kv.set("period", r.pick<long>({0, 0, 20000, 300000, 2000000})); // ns
  kv.set("times", r.pick<long>({1, 1, 2, 3, 5, 1000000}));
  kv.set("steady", r.range(0, 1));
  kv.set("first", r.pick<long>({-1000000, 0, 30000, 100000, 3000000})); // ns from now (negative: in the past)
  kv.set("falseAt", r.chance(1, 4) ? r.range(0, 3) : -1L);
  kv.set("action", r.pick<long>({0, 1, 1, 2, 2, 2, 3})); // 0 let it finish, 1 cancel, 2 destroy, 3 detach + destroy
  kv.set("at", r.pick<long>({0, 0, 20000, 150000, 1000000, 6000000})); // ns after scheduling
  kv.set("extra", r.range(0, 40));                                     // extra points the controller burns before acting
  kv.set("burn", r.range(0, 12));
  kv.set("tk", 100L); // 100 virtual ns per schedule point: the scheduler's clock-polling spin stays short
  kv.setu("mp", 2500000);
  kv.setu("fp", 800000);
}

static void runC26(Case& c) {
  long kind = c.p.i("kind"), period = c.p.i("period"), times = c.p.i("times"), first = c.p.i("first"), action = c.p.i("action");
  auto st = std::make_shared<State>();
  st->falseAt = (int)c.p.i("falseAt");
  st->burnN = (int)c.p.i("burn");
  bool unbounded = times >= 1000000;
  int executors = kind == 1 ? (int)c.p.i("n") : kind == 0 ? 1 : 64;
  uint64_t tSchedule = 0;
  {
    dispenso::ThreadPool pool(kind == 1 ? (size_t)c.p.i("n") : 1);
    {
      dispenso::TimedTaskScheduler tts;
      double now = dispenso::getTime();
      double nextAbs = now + (double)first * 1e-9;
      tSchedule = dsched_now();
      auto makeTask = [&]() {
        Fn fn(st);
        auto type = c.p.i("steady") ? dispenso::TimedTaskType::kSteady : dispenso::TimedTaskType::kNormal;
        if (kind == 0)
          return tts.schedule(dispenso::kImmediateInvoker, std::move(fn), nextAbs, (double)period * 1e-9, (size_t)times, type);
        return tts.schedule(pool, std::move(fn), nextAbs, (double)period * 1e-9, (size_t)times, type);
      };
      {
        auto task = vf::make_aligned<dispenso::TimedTask>(makeTask());
        if (action == 0) {
          // wait (virtual time) for completion: bounded runs finish, unbounded ones are cancelled after a while
          for (int spin = 0; spin < 4000; ++spin) {
            if (!unbounded && (long)st->left.load() >= times)
              break;
            if (st->falseReturned.load())
              break;
            if (unbounded && st->left.load() >= 6)
              break;
            dsched_sleep_ns(20000);
          }
        } else {
          dsched_sleep_ns((uint64_t)c.p.i("at"));
          burn((int)c.p.i("extra"));
        }
        if (action == 1) {
          task->cancel();
          st->cancelReturned = 1;
          dsched_sleep_ns(3000000 + (uint64_t)period * 3); // anything that were to start would have started by now
        } else if (action == 3) {
          task->detach();
        }
        int inFlightBefore = st->inFlight.load();
        (void)inFlightBefore;
        c.phase = "timedtask-dtor";
        task.reset(); // ~TimedTask
        if (action != 3) {
          st->dtorReturned = 1;
          if (st->inFlight.load() != 0)
            st->inFlightAtDtor = 1;
        }
        c.phase = "";
        dsched_sleep_ns(2000000 + (uint64_t)period * 3);
      }
      c.phase = "scheduler-dtor";
    }
    c.phase = "pool-dtor";
  }
  c.phase = "";
  for (int spin = 0; spin < 500 && kind == 2 && st->inFlight.load() != 0; ++spin)
    dsched_sleep_ns(10000);
  int entered = st->entered.load();
  VF_CHECK(c, st->invokedDead.load() == 0, "function-invoked-after-destruction", "the task's function object was invoked after it had been destroyed");
  if (!unbounded)
    VF_CHECK(c, entered <= times, "ran-more-than-timesToRun", "function invoked %d times, timesToRun is %ld", entered, times);
  if (st->falseAt >= 0)
    VF_CHECK(c, st->enteredAfterFalse.load() <= executors - 1 + (kind == 2 ? 64 : 0), "ran-after-returning-false",
             "%d invocations started after an invocation had returned false (at most %d other executors could already have been past their check)",
             st->enteredAfterFalse.load(), executors - 1);
  if (kind == 0 && st->falseAt >= 0)
    VF_CHECK(c, entered <= st->falseAt + 1, "ran-after-returning-false", "ImmediateInvoker: %d invocations although invocation #%d returned false", entered, st->falseAt);
  if (entered > 0 && first > 0) {
    uint64_t due = tSchedule + (uint64_t)first;
    uint64_t tol = 10000 + 2000; // kSmallTimeBuffer: the scheduler fires when less than 10 us remain
    VF_CHECK(c, st->firstEntryNs.load() + tol >= due, "ran-before-first-scheduled-time", "first invocation at +%llu ns, scheduled for +%ld ns",
             (unsigned long long)(st->firstEntryNs.load() - tSchedule), first);
  }
  if (action == 1)
    VF_CHECK(c, st->enteredAfterCancel.load() <= executors, "started-after-cancel",
             "%d invocations started after cancel() had returned (only invocations already past their cancellation check, at most %d, may still begin)",
             st->enteredAfterCancel.load(), executors);
  if (action == 1 || action == 2) {
    VF_CHECK(c, st->enteredAfterDtor.load() == 0, "started-after-destructor", "%d invocation(s) started after the non-detached TimedTask's destructor had returned",
             st->enteredAfterDtor.load());
    VF_CHECK(c, st->inFlightAtDtor.load() == 0, "in-progress-at-destructor-return", "an invocation was still in progress when the non-detached TimedTask's destructor returned");
  }
  VF_CHECK(c, st->liveFunctors.load() == 0 || action == 3, "function-not-destroyed", "%d copies of the function object still alive after task, scheduler and pool were destroyed",
           st->liveFunctors.load());
  bool raced = (action == 1 || action == 2) && entered > 0 && (unbounded || entered < times);
  c.nontrivial = raced;
  if (raced)
    c.cls("cancel_or_destructor_landed_while_the_task_was_active");
  c.cls("invocations", entered);
  c.cls("kind:" + std::to_string(kind));
}

static const vf::Prop kProps[] = {
    {"C26", "timed", genC26, runC26, vf::kE1, 2000, 80000, "cancel() or the destructor ran after at least one invocation and before the task had used up its runs"},
};

int main(int argc, char** argv) {
  return vf::runMain(argc, argv, kProps, 1);
}
