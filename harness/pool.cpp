// Harness family "pool" (E1): generated pool programs (PPI, DESIGN.md §4) and their oracles.
//  C01 exactly-once by ~ThreadPool   C02 wait() barrier      C03 resize never loses/strands
//  C05 exception capture/rethrow     C06 nested waits finish C47 ForceQueuingTag never inline
#include <common/vf.h>
#include <dsched/dsched.h>

#include <dispenso/completion_event.h>
#include <dispenso/parallel_for.h>
#include <dispenso/task_set.h>
#include <dispenso/thread_pool.h>

#include <atomic>
#include <functional>
#include <memory>
#include <thread>
#include <vector>

using vf::Case;
using vf::KV;
using vf::Opts;
using vf::Rng;

namespace {

enum Oracle { O_LEDGER = 1, O_BARRIER = 2, O_FQ = 4, O_EXC = 8 };

struct Tagged {
  int id;
};

struct SetRec { // one task-set instance (program level)
  std::vector<int> ids; // ids whose submission call has returned (owner thread only)
  bool mayCancel = false; // a body may throw or cancel() was called -> bodies may be skipped
  int excAccounted = 0;   // captured exceptions of this set already consumed by a throwing wait
};

struct World {
  static constexpr int kMax = 4096;
  Case& c;
  unsigned oracles;
  dispenso::ThreadPool* pool = nullptr;
  std::atomic<int> nextId{0};
  std::atomic<int> runs[kMax];
  std::atomic<int> left[kMax];
  // written by the task body as PLAIN memory and read by a waiter right after wait() / tryWait()==true returned,
  // before any atomic of the harness: the only ordering between the two is the library's completion edge, so a
  // missing release/acquire there is a data race on this word (C10 under TSan) - and a stale value otherwise
  int plain[kMax];
  std::atomic<int> submitTid[kMax];
  std::atomic<int> submitReturned[kMax];
  std::atomic<int> isFq[kMax];
  std::atomic<int> mayskip[kMax]; // belongs to a set that may be cancelled
  std::atomic<int> threwFlag[kMax];
  std::atomic<int> deliveredTag[kMax];
  std::atomic<int> directFlag[kMax];
  std::atomic<int> poolDead{0};
  std::atomic<unsigned> execMask{0};
  std::atomic<int> inflightBodies{0};
  std::atomic<int> maxInflight{0};
  std::atomic<int> preemptedSubmit{0}; // a body ran on another thread while a submit call was open
  std::atomic<int> openSubmits{0};
  std::atomic<int> openResizes{0};
  std::atomic<int> resizeOverlap{0};
  std::atomic<int> allBlockedSeen{0};
  std::atomic<int> waitersInWait{0};
  std::atomic<int> stolenByWaiter{0};
  std::atomic<int> nestedWaits{0};
  std::atomic<int> thrown{0}, direct{0}, delivered{0};
  // fork-join: tasks submitted by bodies to their own ConcurrentTaskSet (set index -> child ids)
  static constexpr int kMaxSets = 128, kMaxKids = 96;
  std::atomic<int> nextSet{0};
  std::atomic<int> kidCount[kMaxSets];
  std::atomic<int> kidIds[kMaxSets][kMaxKids];
  std::atomic<int> forkJoinSubmits{0};
  std::atomic<int> setMayCancel[kMaxSets];
  std::atomic<int> kidSet[kMax];
  int nPool = 0;

  World(Case& cc, unsigned o) : c(cc), oracles(o) {
    for (int i = 0; i < kMax; ++i) {
      runs[i] = 0;
      left[i] = 0;
      plain[i] = 0;
      submitTid[i] = -2;
      submitReturned[i] = 0;
      isFq[i] = 0;
      mayskip[i] = 0;
      threwFlag[i] = 0;
      deliveredTag[i] = 0;
      directFlag[i] = 0;
    }
    for (int i = 0; i < kMaxSets; ++i) {
      kidCount[i] = 0;
      setMayCancel[i] = 0;
    }
    for (int i = 0; i < kMax; ++i)
      kidSet[i] = -1;
  }
  void addKid(int setIdx, int id) {
    if (setIdx < 0 || setIdx >= kMaxSets)
      return;
    int k = kidCount[setIdx].fetch_add(1);
    if (k >= kMaxKids)
      c.inconclusive("too many fork-join children");
    kidIds[setIdx][k] = id;
    kidSet[id] = setIdx;
  }
  int newId(bool fq, bool skip) {
    int id = nextId.fetch_add(1);
    if (id >= kMax)
      c.inconclusive("too many tasks");
    submitTid[id] = dsched_tid();
    isFq[id] = fq ? 1 : 0;
    mayskip[id] = skip ? 1 : 0;
    return id;
  }
};

struct AnySet;
void body(World& w, int id, int code, int depth, AnySet* owner);

struct Fn { // the functor handed to dispenso (copy = same logical task)
  World* w;
  int id, code, depth;
  AnySet* owner = nullptr; // the program-level set the task was submitted to (fork-join bodies)
  Fn(World* ww, int i, int cd, int d, AnySet* o = nullptr) : w(ww), id(i), code(cd), depth(d), owner(o) {}
  void operator()() {
    body(*w, id, code, depth, owner);
  }
};
void forkJoin(World& w, int code, int depth, AnySet* owner);

void burn(int n) {
  static std::atomic<int> sink{0};
  for (int i = 0; i < n; ++i)
    sink.fetch_add(1, std::memory_order_relaxed);
}

void body(World& w, int id, int code, int depth, AnySet* owner) {
  Case& c = w.c;
  int me = dsched_tid();
  dsched_progress();
  if (w.poolDead.load())
    c.fail("late-enter", "task " + std::to_string(id) + " entered after ~ThreadPool returned");
  int r = w.runs[id].fetch_add(1) + 1;
  if (r > 1 && (w.oracles & (O_LEDGER | O_BARRIER)))
    c.fail("dup", "task " + std::to_string(id) + " invoked " + std::to_string(r) + " times");
  if ((w.oracles & O_FQ) && w.isFq[id].load() && w.nPool > 0 && w.submitTid[id].load() == me && !w.submitReturned[id].load())
    c.fail("fq-inline", "force-queued task " + std::to_string(id) + " ran on its caller before the scheduling call returned");
  if (w.submitTid[id].load() != me && w.openSubmits.load() > 0)
    w.preemptedSubmit = 1;
  if (w.waitersInWait.load() > 0 && w.submitTid[id].load() != me)
    w.stolenByWaiter = 1;
  w.execMask.fetch_or(1u << (me & 31));
  int inf = w.inflightBodies.fetch_add(1) + 1;
  int m = w.maxInflight.load();
  while (inf > m && !w.maxInflight.compare_exchange_weak(m, inf)) {
  }
  switch (code) {
    case 0:
      break;
    case 1:
      burn(3);
      break;
    case 2: {
      w.threwFlag[id] = 1;
      w.thrown.fetch_add(1);
      w.inflightBodies.fetch_sub(1);
      w.plain[id] = id + 1;
      w.left[id] = 1;
      throw Tagged{id};
    }
    case 3: { // schedule a child straight into the pool
      int cid = w.newId(false, false);
      w.openSubmits.fetch_add(1);
      w.pool->schedule(Fn{&w, cid, 0, depth + 1});
      w.openSubmits.fetch_sub(1);
      w.submitReturned[cid] = 1;
      break;
    }
    case 4:
    case 6: { // nested ConcurrentTaskSet (light / heavy) with 2-3 children, then wait
      dispenso::ConcurrentTaskSet cts(*w.pool, code == 4 ? dispenso::TaskCost::kLightweight : dispenso::TaskCost::kHeavy);
      int kids[3];
      int nk = 2 + (id & 1);
      for (int k = 0; k < nk; ++k) {
        int cc = (depth < 2 && k == 0) ? ((id % 3 == 0) ? 4 : (id % 3 == 1) ? 6 : 1) : 1;
        kids[k] = w.newId(false, false);
        w.openSubmits.fetch_add(1);
        cts.schedule(Fn{&w, kids[k], cc, depth + 1});
        w.openSubmits.fetch_sub(1);
        w.submitReturned[kids[k]] = 1;
      }
      w.nestedWaits.fetch_add(1);
      w.waitersInWait.fetch_add(1);
      cts.wait();
      w.waitersInWait.fetch_sub(1);
      for (int k = 0; k < nk; ++k)
        if (!w.left[kids[k]].load() && (w.oracles & O_BARRIER))
          c.fail("barrier", "nested wait() returned before child " + std::to_string(kids[k]) + " finished");
      break;
    }
    case 5: { // nested waiting parallel_for
      std::atomic<int> cnt{0};
      w.nestedWaits.fetch_add(1);
      w.waitersInWait.fetch_add(1);
      dispenso::TaskSet ts(*w.pool);
      dispenso::ParForOptions o;
      dispenso::parallel_for(
          ts, 0, 6, [&](int) { cnt.fetch_add(1); dsched_progress(); }, o);
      w.waitersInWait.fetch_sub(1);
      if (cnt.load() != 6 && (w.oracles & O_BARRIER))
        c.fail("barrier", "nested parallel_for returned with " + std::to_string(cnt.load()) + "/6 iterations");
      break;
    }
    case 7:
    case 8:
    case 9:
      forkJoin(w, code, depth, owner);
      break;
    default:
      break;
  }
  w.inflightBodies.fetch_sub(1);
  w.plain[id] = id + 1;
  w.left[id] = 1;
  dsched_progress();
}

std::vector<std::string> toks(const std::string& s) {
  std::vector<std::string> out;
  size_t i = 0;
  while (i < s.size()) {
    size_t j = s.find(' ', i);
    if (j == std::string::npos)
      j = s.size();
    if (j > i)
      out.push_back(s.substr(i, j - i));
    i = j + 1;
  }
  return out;
}

// A program-level task set: either TaskSet or ConcurrentTaskSet behind one interface
struct AnySet {
  vf::aligned_ptr<dispenso::TaskSet> ts;
  vf::aligned_ptr<dispenso::ConcurrentTaskSet> cts;
  SetRec rec;
  int setIdx = -1;
  template <typename F>
  void schedule(F&& f) {
    if (ts)
      ts->schedule(std::forward<F>(f));
    else
      cts->schedule(std::forward<F>(f));
  }
  template <typename F>
  void scheduleFq(F&& f) {
    if (ts)
      ts->schedule(std::forward<F>(f), dispenso::ForceQueuingTag());
    else
      cts->schedule(std::forward<F>(f), dispenso::ForceQueuingTag());
  }
  template <typename G>
  void bulk(size_t n, G&& g) {
    if (ts)
      ts->scheduleBulk(n, std::forward<G>(g));
    else
      cts->scheduleBulk(n, std::forward<G>(g));
  }
  template <typename G>
  void bulkFq(size_t n, G&& g) {
    if (ts)
      ts->scheduleBulk(n, std::forward<G>(g), dispenso::ForceQueuingTag());
    else
      cts->scheduleBulk(n, std::forward<G>(g), dispenso::ForceQueuingTag());
  }
  bool wait() {
    return ts ? ts->wait() : cts->wait();
  }
  bool tryWait(size_t k) {
    return ts ? ts->tryWait(k) : cts->tryWait(k);
  }
  void cancel() {
    ts ? ts->cancel() : cts->cancel();
  }
};

// fork-join recursion: a task of a ConcurrentTaskSet submits children to the same set while another
// thread may already be inside wait()/tryWait() (README: "recursive scheduling"; the graph executor
// and parallel_invoke examples use the pattern). 7 = schedule, 8 = scheduleBulk(2), 9 = bulk FQ.
void forkJoin(World& w, int code, int depth, AnySet* owner) {
  if (!owner || !owner->cts || depth >= 2) {
    burn(2);
    return;
  }
  bool skip = owner->setIdx >= 0 && owner->setIdx < World::kMaxSets && w.setMayCancel[owner->setIdx].load();
  w.forkJoinSubmits.fetch_add(1);
  w.openSubmits.fetch_add(1);
  int ids[2];
  int n = 0;
  if (code == 7) {
    ids[n++] = w.newId(false, skip);
    owner->cts->schedule(Fn{&w, ids[0], (depth == 0 && (ids[0] & 3) == 0) ? 8 : 1, depth + 1, owner});
  } else {
    auto gen = [&](size_t) {
      int id = w.newId(code == 9, skip);
      if (n < 2)
        ids[n++] = id;
      return Fn{&w, id, 1, depth + 1, owner};
    };
    if (code == 8)
      owner->cts->scheduleBulk(2, gen);
    else
      owner->cts->scheduleBulk(2, gen, dispenso::ForceQueuingTag());
  }
  w.openSubmits.fetch_sub(1);
  for (int i = 0; i < n; ++i) {
    w.submitReturned[ids[i]] = 1;
    w.addKid(owner->setIdx, ids[i]);
  }
  burn((int)w.c.p.i("fjburn", 3)); // the parent keeps working after the fork: the waiter must not return before it leaves
}

void checkBarrier(World& w, AnySet& s, const char* what) {
  if (!(w.oracles & O_BARRIER))
    return;
  if (s.setIdx >= 0 && s.setIdx < World::kMaxSets) {
    int nk = std::min<int>(w.kidCount[s.setIdx].load(), World::kMaxKids);
    for (int k = 0; k < nk; ++k) {
      int id = w.kidIds[s.setIdx][k].load();
      bool fin = w.left[id].load() == 1;
      bool skipped = w.runs[id].load() == 0;
      if (!fin && !(w.setMayCancel[s.setIdx].load() && skipped))
        w.c.fail("barrier", std::string(what) + " returned while fork-join child " + std::to_string(id) +
                                " (submitted to the set by one of its own tasks) had not finished (runs=" + std::to_string(w.runs[id].load()) + ")");
    }
  }
  for (int id : s.rec.ids) {
    bool fin = w.left[id].load() == 1;
    bool skipped = w.runs[id].load() == 0;
    if (!fin && !(s.rec.mayCancel && skipped))
      w.c.fail("barrier", std::string(what) + " returned while task " + std::to_string(id) + " of the set had not finished (runs=" +
                              std::to_string(w.runs[id].load()) + ")");
  }
}

void noteDelivered(World& w, const Tagged& t, bool viaWait) {
  Case& c = w.c;
  if (!(w.oracles & O_EXC))
    return;
  if (t.id < 0 || t.id >= World::kMax || !w.threwFlag[t.id].load())
    c.fail("exc-phantom", "exception with tag " + std::to_string(t.id) + " delivered but no body threw it");
  int n = w.deliveredTag[t.id].fetch_add(1) + 1;
  if (n > 1)
    c.fail("exc-dup", "exception of task " + std::to_string(t.id) + " delivered " + std::to_string(n) + " times");
  if (viaWait)
    w.delivered.fetch_add(1);
  else {
    w.directFlag[t.id] = 1;
    w.direct.fetch_add(1);
  }
}

// Interpret one producer's op list. Sets are owned by this thread (stack); shared CTS `G` optional.
void producer(World& w, const std::string& prog, dispenso::ConcurrentTaskSet* G, std::vector<int>* gIds) {
  Case& c = w.c;
  std::vector<std::unique_ptr<AnySet>> stack;
  // exceptions captured by the top set since its last delivering wait (per set, owner-thread only)
  struct Exc {
    int capturedSeen = 0;
  };
  auto submit1 = [&](AnySet* s, bool fq, int code) {
    int id = w.newId(fq, s ? s->rec.mayCancel || code == 2 : false);
    if (s && code == 2) {
      s->rec.mayCancel = true;
      if (s->setIdx >= 0 && s->setIdx < World::kMaxSets)
        w.setMayCancel[s->setIdx] = 1;
      for (int o : s->rec.ids)
        w.mayskip[o] = 1;
    }
    w.openSubmits.fetch_add(1);
    try {
      Fn f{&w, id, code, 0, s};
      if (!s) {
        if (fq)
          w.pool->schedule(f, dispenso::ForceQueuingTag());
        else
          w.pool->schedule(f);
      } else if (fq)
        s->scheduleFq(f);
      else
        s->schedule(f);
    } catch (const Tagged& t) {
      noteDelivered(w, t, false);
    }
    w.openSubmits.fetch_sub(1);
    w.submitReturned[id] = 1;
    if (s)
      s->rec.ids.push_back(id);
    dsched_progress();
  };
  auto submitBulk = [&](AnySet* s, bool fq, int n, int code) {
    std::vector<int> ids;
    if (s && code == 2) {
      s->rec.mayCancel = true;
      if (s->setIdx >= 0 && s->setIdx < World::kMaxSets)
        w.setMayCancel[s->setIdx] = 1;
      for (int o : s->rec.ids)
        w.mayskip[o] = 1;
    }
    bool skip = s ? s->rec.mayCancel : false;
    auto gen = [&](size_t) {
      int id = w.newId(fq, skip);
      ids.push_back(id);
      return Fn{&w, id, code, 0, s};
    };
    w.openSubmits.fetch_add(1);
    try {
      if (!s)
        w.pool->scheduleBulk((size_t)n, gen);
      else if (fq)
        s->bulkFq((size_t)n, gen);
      else
        s->bulk((size_t)n, gen);
    } catch (const Tagged& t) {
      noteDelivered(w, t, false);
    }
    w.openSubmits.fetch_sub(1);
    for (int id : ids) {
      w.submitReturned[id] = 1;
      if (s)
        s->rec.ids.push_back(id);
    }
    if ((int)ids.size() != n && !(s && s->rec.mayCancel) && (w.oracles & O_LEDGER))
      c.fail("bulk-count", "bulk generator called " + std::to_string(ids.size()) + " times for count " + std::to_string(n));
    dsched_progress();
  };
  auto doWait = [&](AnySet& s, bool isTry, int k) {
    bool threw = false;
    bool done = true;
    int capturedBefore = w.thrown.load() - w.direct.load() - w.delivered.load();
    w.waitersInWait.fetch_add(1);
    try {
      if (isTry)
        done = s.tryWait((size_t)k);
      else
        s.wait();
      if (done && (w.oracles & O_BARRIER))
        for (int id : s.rec.ids) { // first thing after the call returned: plain reads of what the tasks wrote
          int v = w.plain[id];
          if (v != id + 1 && !(s.rec.mayCancel && v == 0))
            c.fail("barrier-payload", std::string(isTry ? "tryWait(true)" : "wait()") + " returned but the plain word task " + std::to_string(id) + " writes last reads " +
                                          std::to_string(v));
        }
    } catch (const Tagged& t) {
      threw = true;
      noteDelivered(w, t, true);
    }
    w.waitersInWait.fetch_sub(1);
    if (done || threw) {
      checkBarrier(w, s, isTry ? "tryWait(true)" : "wait()");
      if (w.oracles & O_EXC) {
        // all tasks of the set have finished: every exception thrown by one of them that did not
        // propagate directly was captured; the first captured one must be rethrown by this call
        int cap = 0;
        for (int id : s.rec.ids)
          if (w.threwFlag[id].load() && !w.directFlag[id].load())
            ++cap;
        int fresh = cap - s.rec.excAccounted;
        if (fresh > 0 && !threw)
          c.fail("exc-missing", std::string(isTry ? "tryWait" : "wait") + " observed completion of a set with " + std::to_string(fresh) +
                                    " captured exception(s) but did not rethrow");
        if (fresh <= 0 && threw)
          c.fail("exc-extra", "wait rethrew although no new exception had been captured by this set");
        s.rec.excAccounted = cap;
      }
    }
    (void)capturedBefore;
    dsched_progress();
    return done || threw;
  };
  for (auto& t : toks(prog)) {
    AnySet* top = stack.empty() ? nullptr : stack.back().get();
    char a = t[0], b = t.size() > 1 ? t[1] : 0;
    long x = 0, y = 0;
    if (t.size() > 2) {
      x = strtol(t.c_str() + 2, nullptr, 10);
      size_t cm = t.find(',');
      if (cm != std::string::npos)
        y = strtol(t.c_str() + cm + 1, nullptr, 10);
    }
    if (a == 'p') {
      if (b == 's')
        submit1(nullptr, false, (int)x);
      else if (b == 'q')
        submit1(nullptr, true, (int)x);
      else if (b == 'b')
        submitBulk(nullptr, false, (int)x, (int)y);
    } else if (a == 't') {
      if (b == 'o') {
        auto s = std::make_unique<AnySet>();
        s->setIdx = w.nextSet.fetch_add(1);
        char kind = t.size() > 2 ? t[2] : 't';
        long mult = t.size() > 3 ? strtol(t.c_str() + 3, nullptr, 10) : 4;
        if (mult < 1)
          mult = 1;
        if (kind == 't')
          s->ts = vf::make_aligned<dispenso::TaskSet>(*w.pool, (ssize_t)mult);
        else
          s->cts = vf::make_aligned<dispenso::ConcurrentTaskSet>(
              *w.pool, kind == 'l' ? dispenso::TaskCost::kLightweight : dispenso::TaskCost::kHeavy, (ssize_t)mult);
        stack.push_back(std::move(s));
      } else if (!top) {
        continue;
      } else if (b == 's')
        submit1(top, false, (int)x);
      else if (b == 'q')
        submit1(top, true, (int)x);
      else if (b == 'b')
        submitBulk(top, false, (int)x, (int)y);
      else if (b == 'B')
        submitBulk(top, true, (int)x, (int)y);
      else if (b == 'w')
        doWait(*top, false, 0);
      else if (b == 'y')
        doWait(*top, true, (int)x);
      else if (b == 'c') {
        top->rec.mayCancel = true;
        if (top->setIdx >= 0 && top->setIdx < World::kMaxSets)
          w.setMayCancel[top->setIdx] = 1;
        for (int id : top->rec.ids)
          w.mayskip[id] = 1;
        top->cancel();
      } else if (b == 'x') {
        // explicit wait first: a pending exception must not escape the destructor
        doWait(*top, false, 0);
        AnySet* p = top;
        // destructor is a barrier too
        stack.back().reset();
        (void)p;
        stack.pop_back();
      }
    } else if (a == 'g' && G) {
      int id = w.newId(b == 'q', false);
      w.openSubmits.fetch_add(1);
      if (b == 'q')
        G->schedule(Fn{&w, id, (int)x, 0}, dispenso::ForceQueuingTag());
      else if (b == 's')
        G->schedule(Fn{&w, id, (int)x, 0});
      w.openSubmits.fetch_sub(1);
      w.submitReturned[id] = 1;
      gIds->push_back(id);
    } else if (a == 'z') {
      burn((int)strtol(t.c_str() + 1, nullptr, 10));
    } else if (a == 'r') {
      long n = strtol(t.c_str() + 1, nullptr, 10);
      w.openResizes.fetch_add(1);
      if (w.openSubmits.load() > 0)
        w.resizeOverlap = 1;
      w.pool->resize((ssize_t)n);
      w.openResizes.fetch_sub(1);
      dsched_progress();
    }
  }
  while (!stack.empty()) {
    doWait(*stack.back(), false, 0);
    stack.back().reset();
    stack.pop_back();
  }
}

void runProgram(Case& c, unsigned oracles) {
  World* wp = new World(c, oracles);
  World& w = *wp;
  long n = c.p.i("n");
  long mult = c.p.i("mult", 32);
  long P = c.p.i("P", 1);
  bool poll = c.p.i("poll", 0) != 0;
  bool useG = c.p.i("G", 0) != 0;
  w.nPool = (int)n;
  c.phase = "run";
  {
    auto pool = vf::make_aligned<dispenso::ThreadPool>((size_t)n, (size_t)mult);
    w.pool = pool.get();
    if (poll)
      pool->setSignalingWake(false, std::chrono::microseconds(200));
    long idle = c.p.i("idle", 0);
    if (idle)
      dsched_sleep_ns((uint64_t)idle * 1000000ull); // let workers park first
    {
      vf::aligned_ptr<dispenso::ConcurrentTaskSet> G;
      if (useG)
        G = vf::make_aligned<dispenso::ConcurrentTaskSet>(*pool, c.p.i("Gheavy", 0) ? dispenso::TaskCost::kHeavy : dispenso::TaskCost::kLightweight);
      std::vector<std::vector<int>> gIds((size_t)P + 1);
      std::vector<std::thread> th;
      for (long p = 1; p < P; ++p) {
        std::string prog = c.p.s("prog" + std::to_string(p));
        th.emplace_back([&, prog, p]() { producer(w, prog, G.get(), &gIds[(size_t)p]); });
      }
      if (c.p.has("rprog")) {
        std::string rp = c.p.s("rprog");
        th.emplace_back([&, rp]() { producer(w, rp, nullptr, nullptr); });
      }
      producer(w, c.p.s("prog0"), G.get(), &gIds[0]);
      for (auto& t : th)
        t.join();
      if (G) {
        w.waitersInWait.fetch_add(1);
        G->wait();
        w.waitersInWait.fetch_sub(1);
        if (w.oracles & O_BARRIER)
          for (auto& v : gIds)
            for (int id : v)
              if (!w.left[id].load())
                c.fail("barrier", "shared ConcurrentTaskSet wait() returned while task " + std::to_string(id) + " had not finished");
      }
    }
    c.phase = "pool-dtor";
    pool.reset();
  }
  w.poolDead = 1;
  dsched_settle(20000);
  int total = w.nextId.load();
  if (w.oracles & O_LEDGER) {
    for (int id = 0; id < total; ++id) {
      int r = w.runs[id].load();
      bool maySkip = w.mayskip[id].load() || (w.kidSet[id].load() >= 0 && w.setMayCancel[w.kidSet[id].load()].load());
      if (r == 0 && !maySkip)
        c.fail("lost", "task " + std::to_string(id) + " never ran although ~ThreadPool has returned (" + std::to_string(total) + " tasks)");
      if (r > 1)
        c.fail("dup", "task " + std::to_string(id) + " ran " + std::to_string(r) + " times");
      if (r == 1 && !w.left[id].load())
        c.fail("unfinished", "task " + std::to_string(id) + " still running after ~ThreadPool");
    }
  }
  if (w.oracles & O_EXC) {
    int captured = w.thrown.load() - w.direct.load();
    if (captured > 0 && w.delivered.load() == 0)
      c.fail("exc-missing", std::to_string(captured) + " exception(s) captured by task sets but none rethrown by any wait()/tryWait()");
  }
  // classification
  unsigned mask = w.execMask.load();
  int execThreads = __builtin_popcount(mask);
  c.cls("tasks", total);
  if (execThreads >= 2)
    c.cls("bodies_on>=2_threads");
  if (w.preemptedSubmit.load())
    c.cls("body_ran_elsewhere_during_open_submit");
  if (w.stolenByWaiter.load())
    c.cls("body_ran_while_a_wait_was_open");
  if (w.nestedWaits.load())
    c.cls("nested_waits", w.nestedWaits.load());
  if (w.resizeOverlap.load())
    c.cls("resize_overlapped_submit");
  if (w.thrown.load())
    c.cls("throwing_bodies", w.thrown.load());
  if (w.direct.load())
    c.cls("exceptions_propagated_directly", w.direct.load());
  if (w.delivered.load())
    c.cls("exceptions_rethrown_by_wait", w.delivered.load());
  if (w.maxInflight.load() >= 2)
    c.cls("max_inflight>=2");
  if (w.forkJoinSubmits.load())
    c.cls("fork_join_submissions_from_set_tasks", w.forkJoinSubmits.load());
  delete wp;
}

// ---------------------------------------------------------------------------------------------
// generators
struct GenCfg {
  bool poolOps, sets, fq, throwing, nested, nestedWait, resize, sharedG;
  int maxTasks;
  bool forkJoin = true;
};

std::string genBodyCode(Rng& r, const GenCfg& g, bool inSet) {
  std::vector<int> codes = {0, 0, 1, 1};
  if (g.nested)
    codes.push_back(3);
  if (g.nestedWait) {
    codes.push_back(4);
    codes.push_back(6);
    codes.push_back(5);
  }
  if (g.throwing && inSet)
    codes.push_back(2);
  if (g.forkJoin && inSet) { // only meaningful for ConcurrentTaskSet; a TaskSet task treats it as a no-op body
    codes.push_back(7);
    codes.push_back(8);
    if (g.fq)
      codes.push_back(9);
  }
  return std::to_string(codes[r.below(codes.size())]);
}

std::string genProducer(Rng& r, const GenCfg& g, long n, int budget) {
  std::string s;
  int open = 0;
  int ops = (int)r.range(1, 7);
  for (int i = 0; i < ops && budget > 0; ++i) {
    int k = (int)r.range(0, 99);
    if (g.sets && open == 0 && (k < 45 || !g.poolOps)) {
      const char* kinds[] = {"t", "l", "h"};
      s += std::string("to") + kinds[r.below(3)] + std::to_string(r.pick<long>({1, 1, 2, 4, 4})) + " ";
      ++open;
      int inner = (int)r.range(1, 6);
      for (int j = 0; j < inner && budget > 0; ++j) {
        int q = (int)r.range(0, 99);
        if (q < 30) {
          s += "ts" + genBodyCode(r, g, true) + " ";
          --budget;
        } else if (q < 45 && g.fq) {
          s += "tq" + genBodyCode(r, g, true) + " ";
          --budget;
        } else if (q < 70) {
          long cnt = r.chance(1, 2) ? r.range(1, std::max<long>(1, n + 1)) : r.range(1, 9);
          s += "tb" + std::to_string(cnt) + "," + genBodyCode(r, g, true) + " ";
          budget -= (int)cnt;
        } else if (q < 80 && g.fq) {
          long cnt = r.range(1, 6);
          s += "tB" + std::to_string(cnt) + "," + genBodyCode(r, g, true) + " ";
          budget -= (int)cnt;
        } else if (q < 88) {
          s += "ty" + std::to_string(r.range(0, 3)) + " ";
        } else if (q < 94) {
          s += "tw ";
        } else {
          s += "z" + std::to_string(r.range(1, 20)) + " ";
        }
      }
      if (r.chance(2, 3)) {
        s += "tx ";
        --open;
      }
    } else if (g.poolOps) {
      int q = (int)r.range(0, 99);
      if (q < 40) {
        s += "ps" + genBodyCode(r, g, false) + " ";
        --budget;
      } else if (q < 60 && g.fq) {
        s += "pq" + genBodyCode(r, g, false) + " ";
        --budget;
      } else if (q < 90) {
        long cnt = r.chance(1, 6) ? r.range(10, 40) : r.range(1, 8);
        s += "pb" + std::to_string(cnt) + "," + genBodyCode(r, g, false) + " ";
        budget -= (int)cnt;
      } else {
        s += "z" + std::to_string(r.range(1, 30)) + " ";
      }
    }
    if (g.sharedG && r.chance(1, 4)) {
      s += std::string(r.chance(1, 3) && g.fq ? "gq" : "gs") + (r.chance(1, 2) ? "0" : "1") + " ";
      --budget;
    }
    if (open > 0 && r.chance(1, 2)) {
      s += "tx ";
      --open;
    }
  }
  return s;
}

void genCommon(Rng& r, KV& kv, const Opts& o, const GenCfg& g, long minPool) {
  long n = r.range(minPool, o.thorough() ? 6 : 4);
  kv.set("n", n);
  kv.set("mult", r.pick<long>({1, 2, 2, 32, 32}));
  kv.set("poll", r.chance(1, 5) ? 1L : 0L);
  long P = r.range(1, 3);
  kv.set("P", P);
  if (g.sharedG && r.chance(1, 2)) {
    kv.set("G", 1L);
    kv.set("Gheavy", r.chance(1, 2) ? 1L : 0L);
  }
  if (r.chance(1, 4))
    kv.set("idle", r.pick<long>({1, 150, 350})); // ms of virtual sleep so workers park before submissions
  for (long p = 0; p < P; ++p)
    kv.set("prog" + std::to_string(p), genProducer(r, g, n, g.maxTasks / (int)P));
  if (g.resize) {
    std::string rp;
    int k = (int)r.range(1, 4);
    for (int i = 0; i < k; ++i) {
      rp += "z" + std::to_string(r.range(0, 60)) + " ";
      rp += "r" + std::to_string(r.pick<long>({0, 1, 2, 2, 3, 4, 4, 5})) + " ";
    }
    kv.set("rprog", rp);
  }
  kv.setu("mp", 600000);
  kv.setu("fp", 400000);
  kv.setu("ep", 6000);
}

void genC01(Rng& r, KV& kv, const Opts& o) {
  GenCfg g{true, false, true, false, true, false, false, false, 60};
  genCommon(r, kv, o, g, 0);
}
void genC02(Rng& r, KV& kv, const Opts& o) {
  GenCfg g{r.chance(1, 2), true, true, false, true, r.chance(1, 3), false, true, 50};
  genCommon(r, kv, o, g, 0);
}
void genC03(Rng& r, KV& kv, const Opts& o) {
  GenCfg g{true, true, true, false, true, r.chance(1, 4), true, true, 50};
  genCommon(r, kv, o, g, 1);
}
void genC05(Rng& r, KV& kv, const Opts& o) {
  GenCfg g{false, true, true, true, false, false, false, false, 40};
  genCommon(r, kv, o, g, 0);
}
void genC06(Rng& r, KV& kv, const Opts& o) {
  GenCfg g{r.chance(1, 2), true, true, false, true, true, false, true, 40};
  genCommon(r, kv, o, g, 0);
  if (r.chance(1, 2))
    kv.set("idle", r.pick<long>({150, 350}));
}
void genC47(Rng& r, KV& kv, const Opts& o) {
  GenCfg g{true, true, true, false, true, r.chance(1, 3), false, true, 60};
  genCommon(r, kv, o, g, 1);
  kv.set("mult", r.pick<long>({1, 1, 2}));
}

// focused fork-join family for C02: one or two parents on a ConcurrentTaskSet fork children onto the
// same set (single / bulk / force-queued bulk) and keep working while the submitter is in wait(),
// a tryWait() loop or the destructor
void genC02fj(Rng& r, KV& kv, const Opts& o) {
  long n = r.range(1, o.thorough() ? 6 : 4);
  kv.set("n", n);
  kv.set("mult", r.pick<long>({1, 2, 32, 32}));
  kv.set("poll", r.chance(1, 6) ? 1L : 0L);
  kv.set("P", 1L);
  if (r.chance(1, 4))
    kv.set("idle", r.pick<long>({1, 150}));
  std::string s = std::string("to") + (r.chance(1, 2) ? "l" : "h") + std::to_string(r.pick<long>({1, 2, 4, 4})) + " ";
  long parents = r.range(1, 3);
  for (long i = 0; i < parents; ++i) {
    s += r.chance(1, 3) ? "tq" : "ts";
    s += std::to_string(r.pick<long>({7, 8, 8, 9, 9})) + " ";
    if (r.chance(1, 4))
      s += "z" + std::to_string(r.range(1, 30)) + " ";
  }
  long fin = r.range(0, 9);
  if (fin < 5)
    s += "tw tx ";
  else if (fin < 8)
    s += "ty" + std::to_string(r.range(0, 2)) + " ty" + std::to_string(r.range(0, 3)) + " tx ";
  else
    s += "tx ";
  kv.set("prog0", s);
  kv.set("fjburn", r.pick<long>({0, 3, 10, 30, 80}));
  kv.setu("mp", 600000);
  kv.setu("fp", 400000);
  kv.setu("ep", 3000);
}

void runC01(Case& c) {
  runProgram(c, O_LEDGER);
  c.nontrivial = c.classes.count("bodies_on>=2_threads") && c.classes.count("body_ran_elsewhere_during_open_submit");
}
void runC02(Case& c) {
  runProgram(c, O_BARRIER | O_LEDGER);
  c.nontrivial = c.classes.count("body_ran_while_a_wait_was_open") > 0;
}
void runC02fj(Case& c) {
  runProgram(c, O_BARRIER | O_LEDGER);
  c.nontrivial = c.classes.count("body_ran_while_a_wait_was_open") > 0 && c.classes.count("fork_join_submissions_from_set_tasks") > 0;
}
void runC03(Case& c) {
  runProgram(c, O_BARRIER | O_LEDGER);
  c.nontrivial = c.classes.count("resize_overlapped_submit") > 0;
}
void runC05(Case& c) {
  runProgram(c, O_EXC | O_BARRIER);
  c.nontrivial = c.classes.count("throwing_bodies") && c.classes["throwing_bodies"] >= 2;
  if (c.classes.count("throwing_bodies") && c.classes.count("exceptions_propagated_directly"))
    c.nontrivial = true;
}
void runC06(Case& c) {
  runProgram(c, O_BARRIER | O_LEDGER);
  c.nontrivial = c.classes.count("nested_waits") > 0 && c.classes.count("body_ran_while_a_wait_was_open");
}
void runC47(Case& c) {
  runProgram(c, O_FQ);
  c.nontrivial = c.p.dump().find("q") != std::string::npos || c.p.dump().find("tB") != std::string::npos;
}

// =============================================================================================
// C07 — submissions to an idle (all workers parked) pool start without the sleep backstop
struct IdleWatch {
  std::atomic<int> watch{0};
  std::atomic<int> backstopJumps{0};
  int firstJumpTid = -1;
  dispenso::ThreadPool* pool = nullptr;
  // where the pending work sat when the first backstop expiry was needed (hook H2)
  size_t queueSize = 0, rings = 0, stealRings = 0;
  bool hint = false;
};
IdleWatch* g_idle = nullptr;
void idleJumpCb(const dsched_jump* j) {
  if (g_idle && g_idle->watch.load(std::memory_order_relaxed) && j->why == DS_WHY_FUTEX && j->tid != 0) {
    if (g_idle->backstopJumps.fetch_add(1) == 0) {
      g_idle->firstJumpTid = j->tid;
      if (g_idle->pool) {
        g_idle->queueSize = g_idle->pool->verifCentralQueueSize();
        g_idle->hint = g_idle->pool->verifCentralQueueHint();
        g_idle->rings = g_idle->pool->verifNonEmptyRings();
        g_idle->stealRings = g_idle->pool->verifNonEmptyStealRings();
      }
    }
    if (getenv("VF_DEBUG"))
      fprintf(stderr, "JUMP tid=%d why=%d from=%lu to=%lu %s\n", j->tid, j->why, (unsigned long)j->from_ns, (unsigned long)j->to_ns, dsched_table());
  }
}

const char* kIdlePaths[] = {"pool.schedule", "pool.scheduleFQ", "pool.bulk", "ts.schedule", "ts.bulk", "ts.bulkFQ",
                            "ctsl.schedule", "ctsl.bulk", "ctsh.schedule", "ctsh.bulk", "parfor.static", "parfor.adaptive"};

void genC07(Rng& r, KV& kv, const Opts& o) {
  long n = r.range(1, o.thorough() ? 8 : 6);
  kv.set("n", n);
  long path = r.range(0, 11);
  kv.set("path", path);
  kv.set("k", r.chance(2, 3) ? r.range(1, n + 2) : r.range(1, 2 * n + 4));
  kv.set("mult", r.pick<long>({2, 32}));
  kv.setu("mp", 800000);
  kv.setu("fp", 400000);
  kv.set("sp", 0L); // spurious futex returns would only mask a missing wake
  // ring-targeted bulk wake with fewer tasks than sleepers in the seed group is a listed finding:
  // exclude that region by construction so the search continues behind it
  (void)o;
}

void runC07(Case& c) {
  long n = c.p.i("n"), k = c.p.i("k"), path = c.p.i("path"), mult = c.p.i("mult", 32);
  IdleWatch iw;
  g_idle = &iw;
  dsched_on_jump(idleJumpCb);
  std::atomic<long> entered{0};
  long expected = k;
  dispenso::CompletionEvent allIn;
  std::string sigPath = kIdlePaths[path];
  bool ringPath = false;
  {
    dispenso::ThreadPool pool((size_t)n, (size_t)mult);
    iw.pool = &pool;
    // park everybody: 3.5 backstop periods of virtual time, then let the rest settle
    dsched_sleep_ns(350000000ull);
    dsched_settle(200000);
    int parked = dsched_count_blocked(DS_WHY_FUTEX, 1);
    if (parked != n)
      c.inconclusive("workers not all parked: " + std::to_string(parked) + "/" + std::to_string(n));
    auto task = [&]() {
      if (entered.fetch_add(1) + 1 == expected)
        allIn.notify();
      dsched_progress();
    };
    c.phase = "submit";
    vf::aligned_ptr<dispenso::TaskSet> ts;
    vf::aligned_ptr<dispenso::ConcurrentTaskSet> cts;
    iw.watch = 1;
    switch (path) {
      case 0:
        for (long i = 0; i < k; ++i)
          pool.schedule(task);
        break;
      case 1:
        for (long i = 0; i < k; ++i)
          pool.schedule(task, dispenso::ForceQueuingTag());
        break;
      case 2:
        pool.scheduleBulk((size_t)k, [&](size_t) { return task; });
        break;
      case 3:
        ts = vf::make_aligned<dispenso::TaskSet>(pool);
        for (long i = 0; i < k; ++i)
          ts->schedule(task);
        break;
      case 4:
        ts = vf::make_aligned<dispenso::TaskSet>(pool);
        ringPath = (k * 4 >= n && k <= n);
        ts->scheduleBulk((size_t)k, [&](size_t) { return task; });
        break;
      case 5:
        ts = vf::make_aligned<dispenso::TaskSet>(pool);
        ts->scheduleBulk((size_t)k, [&](size_t) { return task; }, dispenso::ForceQueuingTag());
        break;
      case 6:
      case 8:
        cts = vf::make_aligned<dispenso::ConcurrentTaskSet>(pool, path == 6 ? dispenso::TaskCost::kLightweight : dispenso::TaskCost::kHeavy);
        for (long i = 0; i < k; ++i)
          cts->schedule(task);
        break;
      case 7:
      case 9:
        cts = vf::make_aligned<dispenso::ConcurrentTaskSet>(pool, path == 7 ? dispenso::TaskCost::kLightweight : dispenso::TaskCost::kHeavy);
        ringPath = (path == 7 && k * 4 >= n && k <= n);
        cts->scheduleBulk((size_t)k, [&](size_t) { return task; });
        break;
      case 10:
      case 11: {
        ts = vf::make_aligned<dispenso::TaskSet>(pool);
        dispenso::ParForOptions o;
        o.wait = false;
        o.defaultChunking = path == 10 ? dispenso::ParForChunking::kStatic : dispenso::ParForChunking::kAdaptive;
        expected = 4 * k;
        ringPath = path == 10;
        dispenso::parallel_for(
            *ts, (long)0, expected, [&](long) { task(); }, o);
        break;
      }
    }
    c.phase = "await-start";
    // untimed wait for the last task to have entered. Tasks run inline on the caller count too
    // (then nothing depends on a wake-up at all).
    if (entered.load() < expected)
      allIn.wait();
    iw.watch = 0;
    if (iw.backstopJumps.load() > 0) {
      // signature = mechanism: where the unstarted work was sitting while every worker was parked
      std::string where = iw.rings ? "in-locality-ring" : iw.stealRings ? "in-steal-ring" : iw.queueSize ? "in-central-queue" : "nowhere";
      std::string sig = "backstop:" + where;
      c.fail(sig, "[work " + where + ", queue=" + std::to_string(iw.queueSize) + " hint=" + std::to_string((int)iw.hint) + " rings=" +
                      std::to_string(iw.rings) + " stealRings=" + std::to_string(iw.stealRings) + "] path " + sigPath + " n=" + std::to_string(n) + " k=" + std::to_string(k) + ": all workers were parked; the submitted work only started after " +
                      std::to_string(iw.backstopJumps.load()) + " idle-sleep backstop expiry(ies) (virtual-time jump to worker th" +
                      std::to_string(iw.firstJumpTid) + "'s futex timeout)");
    }
    c.phase = "finish";
    if (ts)
      ts->wait();
    if (cts)
      cts->wait();
    ts.reset();
    cts.reset();
    c.phase = "pool-dtor";
  }
  dsched_on_jump(nullptr);
  g_idle = nullptr;
  c.nontrivial = (k < n) || n > 2;
  c.cls(std::string("path:") + sigPath);
  if (k < n)
    c.cls("tasks<parked_workers");
  if (ringPath)
    c.cls("ring_fast_path");
}

// =============================================================================================
// C09 — destruction / resize / setSignalingWake complete without the backstop, old workers gone
void genC09(Rng& r, KV& kv, const Opts& o) {
  long n = r.range(1, o.thorough() ? 8 : 6);
  kv.set("n", n);
  kv.set("action", r.range(0, 3)); // 0 dtor, 1 resize, 2 setSignalingWake(false), 3 setSignalingWake(true) from poll
  kv.set("to", r.range(0, 6));
  kv.set("pre", r.pick<long>({0, 0, 1, 2, 3})); // 0: none, 1: burn few points, 2: sleep until parked, 3: busy tasks
  kv.set("burn", r.range(0, 400));
  kv.set("busy", r.range(1, n));
  kv.set("poll", r.chance(1, 3) ? 1L : 0L);
  kv.set("period", r.pick<long>({200, 200, 5000, 2000000})); // poll period, microseconds
  kv.setu("mp", 800000);
  kv.setu("fp", 400000);
  kv.set("sp", 0L);
}

void runC09(Case& c) {
  long n = c.p.i("n"), action = c.p.i("action"), to = c.p.i("to"), pre = c.p.i("pre");
  bool poll = c.p.i("poll") != 0;
  long period = c.p.i("period", 200);
  IdleWatch iw;
  g_idle = &iw;
  dsched_on_jump(idleJumpCb);
  std::atomic<int> bodies{0};
  int aliveBefore = dsched_count_alive();
  {
    auto pool = vf::make_aligned<dispenso::ThreadPool>((size_t)n);
    if (poll || action == 3)
      pool->setSignalingWake(false, std::chrono::microseconds(period));
    if (pre == 1)
      burn((int)c.p.i("burn"));
    else if (pre == 2) {
      dsched_sleep_ns(350000000ull);
      dsched_settle(200000);
      if (poll || action == 3) // also land inside a poll period, away from its expiry
        dsched_sleep_ns((uint64_t)period * 1000ull * 5 / 2 + 777);
    } else if (pre == 3) {
      long busy = c.p.i("busy");
      for (long i = 0; i < busy; ++i)
        pool->schedule([&]() { burn(20 + (int)c.p.i("burn") / 4); bodies.fetch_add(1); dsched_progress(); }, dispenso::ForceQueuingTag());
      burn((int)c.p.i("burn") / 8);
    }
    bool pollMode = poll || action == 3;
    int parkedAtCall = dsched_count_blocked(DS_WHY_FUTEX, 1);
    uint64_t t0 = dsched_now();
    c.phase = action == 0 ? "pool-dtor" : action == 1 ? "resize" : "setSignalingWake";
    // stop()/wakeAll() must wake parked workers in both modes: a poll-mode worker parks on the same
    // group futex with its poll period as timeout, and "without relying on the sleep backstop" means
    // the call may not have to wait for that timeout either (no virtual-time jump to a worker's
    // timed wait while the call is in progress).
    iw.watch = 1;
    long expectAlive = 0;
    if (action == 0) {
      pool.reset();
      expectAlive = 0;
    } else if (action == 1) {
      pool->resize((ssize_t)to);
      expectAlive = to;
    } else if (action == 2) {
      pool->setSignalingWake(false, std::chrono::microseconds(period));
      expectAlive = n;
    } else {
      pool->setSignalingWake(true, std::chrono::microseconds(100000));
      expectAlive = n;
    }
    iw.watch = 0;
    uint64_t dt = dsched_now() - t0;
    if (iw.backstopJumps.load() > 0)
      c.fail(std::string(pollMode ? "poll-timeout:" : "backstop:") + c.phase,
             c.phase + " on a " + (pollMode ? "poll-mode (period " + std::to_string(period) + " us)" : std::string("wake-mode")) + " pool (n=" +
                 std::to_string(n) + ", " + std::to_string(parkedAtCall) + " parked) returned only after " +
                 std::to_string(iw.backstopJumps.load()) + " expiry(ies) of a worker's timed sleep (" + std::to_string(dt / 1000) + " us virtual)");
    if (pollMode && dt > 50000000ull)
      c.fail("slow:" + c.phase, c.phase + " in poll mode took " + std::to_string(dt / 1000) + " us of virtual time (poll period " + std::to_string(period) + "us, n=" + std::to_string(n) + ")");
    if (pollMode)
      c.cls("poll_mode_period_us:" + std::to_string(period));
    int alive = dsched_count_alive() - aliveBefore;
    if (alive != expectAlive)
      c.fail("old-workers-alive:" + c.phase, "after " + c.phase + " returned " + std::to_string(alive) + " worker threads exist, expected " + std::to_string(expectAlive));
    if (parkedAtCall > 0)
      c.cls("some_workers_parked_at_call");
    if (parkedAtCall > 0 && parkedAtCall < n)
      c.cls("mixed_states_at_call");
    c.nontrivial = parkedAtCall > 0 || pre == 3;
    c.cls("action:" + c.phase);
    c.phase = "pool-dtor";
    pool.reset();
  }
  if (dsched_count_alive() - aliveBefore != 0)
    c.fail("old-workers-alive:final", "worker threads still exist after ~ThreadPool");
  dsched_on_jump(nullptr);
  g_idle = nullptr;
}

// =============================================================================================
// gates: block all n workers of a pool inside gate tasks
struct Gate {
  dispenso::CompletionEvent open, allArrived;
  std::atomic<long> arrived{0}, exited{0};
  long need = 0;
  bool released = false;
  ~Gate() {
    release();
  }
  void close(dispenso::ThreadPool& pool, long n) {
    need = n;
    for (long i = 0; i < n; ++i)
      pool.schedule(
          [this]() {
            if (arrived.fetch_add(1) + 1 == need)
              allArrived.notify();
            open.wait();
            exited.fetch_add(1); // last touch of the gate
          },
          dispenso::ForceQueuingTag());
    if (n > 0)
      allArrived.wait();
  }
  void release() { // returns only when no gate task can touch this object any more
    if (released)
      return;
    released = true;
    open.notify();
    while (exited.load() < need)
      dsched_sleep_ns(2000);
  }
};

// =============================================================================================
// C08 — pending-work accounting returns to zero: black-box inline-threshold probe
long probeInlineThreshold(Case& c, dispenso::ThreadPool& pool, long n, long limit) {
  // state lives on the heap: queued probe tasks run after this function has returned
  struct St {
    std::atomic<int> ranInline{0}, inCall{0};
  };
  auto st = std::make_shared<St>();
  long K = -1;
  {
    Gate g;
    g.close(pool, n);
    int me = dsched_tid();
    for (long i = 0; i < limit; ++i) {
      st->inCall = 1;
      pool.schedule([st, me]() {
        if (dsched_tid() == me && st->inCall.load())
          st->ranInline = 1;
      });
      st->inCall = 0;
      if (st->ranInline.load()) {
        K = i;
        break;
      }
    }
    g.release();
  }
  (void)c;
  return K;
}

void genC08(Rng& r, KV& kv, const Opts& o) {
  GenCfg g{true, true, true, false, true, r.chance(1, 4), r.chance(2, 3), true, 40};
  genCommon(r, kv, o, g, 1);
  kv.set("mult", r.pick<long>({1, 2, 2, 3}));
  kv.set("poll", 0L);
}

void runC08(Case& c) {
  World* wp = new World(c, 0);
  World& w = *wp;
  long n = c.p.i("n"), mult = c.p.i("mult", 2), P = c.p.i("P", 1);
  w.nPool = (int)n;
  long Kfresh = -1, Kafter = -1, nFinal = n;
  {
    auto pool = vf::make_aligned<dispenso::ThreadPool>((size_t)n, (size_t)mult);
    w.pool = pool.get();
    c.phase = "history";
    {
      vf::aligned_ptr<dispenso::ConcurrentTaskSet> G;
      if (c.p.i("G"))
        G = vf::make_aligned<dispenso::ConcurrentTaskSet>(*pool);
      std::vector<std::vector<int>> gIds((size_t)P + 1);
      std::vector<std::thread> th;
      for (long p = 1; p < P; ++p) {
        std::string prog = c.p.s("prog" + std::to_string(p));
        th.emplace_back([&, prog, p]() { producer(w, prog, G.get(), &gIds[(size_t)p]); });
      }
      if (c.p.has("rprog")) {
        std::string rp = c.p.s("rprog");
        th.emplace_back([&, rp]() { producer(w, rp, nullptr, nullptr); });
      }
      producer(w, c.p.s("prog0"), G.get(), &gIds[0]);
      for (auto& t : th)
        t.join();
      if (G)
        G->wait();
    }
    nFinal = (long)pool->numThreads();
    // quiescence: everything submitted has finished (raw pool tasks: wait for the ledger), workers idle
    c.phase = "quiesce";
    for (int spin = 0; spin < 200; ++spin) {
      bool all = true;
      int total = w.nextId.load();
      for (int id = 0; id < total; ++id)
        if (!w.left[id].load() && !w.mayskip[id].load())
          all = false;
      if (all)
        break;
      dsched_sleep_ns(1000000);
    }
    dsched_sleep_ns(350000000ull);
    dsched_settle(200000);
    if (nFinal > 0) {
      c.phase = "probe";
      Kafter = probeInlineThreshold(c, *pool, nFinal, 40 * nFinal * mult + 64);
    }
    c.phase = "pool-dtor";
    pool.reset();
  }
  if (nFinal > 0) {
    c.phase = "fresh";
    dispenso::ThreadPool fresh((size_t)nFinal, (size_t)mult);
    dsched_sleep_ns(350000000ull);
    dsched_settle(200000);
    Kfresh = probeInlineThreshold(c, fresh, nFinal, 40 * nFinal * mult + 64);
    c.phase = "pool-dtor";
  }
  if (Kfresh != Kafter)
    c.fail("drift", "inline threshold after history K=" + std::to_string(Kafter) + " differs from a fresh pool(" + std::to_string(nFinal) + "," +
                        std::to_string(mult) + ") K=" + std::to_string(Kfresh) + " (pending-work counter drifted by " + std::to_string(Kfresh - Kafter) + ")");
  c.nontrivial = w.resizeOverlap.load() != 0 || c.p.has("rprog");
  if (w.resizeOverlap.load())
    c.cls("resize_overlapped_submit");
  if (c.p.has("rprog"))
    c.cls("history_with_resize");
  c.cls("tasks", w.nextId.load());
  delete wp;
}

// =============================================================================================
// C04 — cancelled task sets start no further bodies
void genC04(Rng& r, KV& kv, const Opts& o) {
  long n = r.range(0, o.thorough() ? 6 : 4);
  kv.set("n", n);
  kv.set("kind", r.range(0, 2));    // 0 TaskSet 1 CTS light 2 CTS heavy
  kv.set("trigger", r.range(0, 2)); // 0 cancel() 1 exception 2 parent cascade
  kv.set("form", r.range(0, 3));    // 0 single 1 bulk 2 FQ single 3 FQ bulk
  kv.set("load", r.range(0, 3));    // 0 idle 1 workers gated + mult 1 (global overload) 2 set over own load factor 3 pool-recursive caller overloaded
  kv.set("cnt", r.range(1, 6));
  kv.set("scen", r.range(0, 1)); // 0: submit after cancel returned; 1: queued behind gates then cancel
  if (n == 0 && kv.i("trigger") == 2)
    kv.set("trigger", 0L); // a zero-thread pool runs the parent task inline: it could never be parked
  if (kv.i("trigger") == 2 && r.chance(1, 2))
    kv.set("pthrow", 1L); // parent cascade after the parent was already cancelled by a throwing task
  kv.setu("mp", 800000);
  kv.setu("fp", 400000);
}

// note: dispenso moves from the functor it is given (even an lvalue), so every submission gets a fresh one
template <typename SetT>
void submitForm(SetT& s, long form, long cnt, std::function<void()>& fref) {
  std::function<void()>* pf = &fref;
  if (form == 0)
    for (long i = 0; i < cnt; ++i)
      s.schedule([pf]() { (*pf)(); });
  else if (form == 1)
    s.scheduleBulk((size_t)cnt, [&](size_t) { return [pf]() { (*pf)(); }; });
  else if (form == 2)
    for (long i = 0; i < cnt; ++i)
      s.schedule([pf]() { (*pf)(); }, dispenso::ForceQueuingTag());
  else
    s.scheduleBulk((size_t)cnt, [&](size_t) { return [pf]() { (*pf)(); }; }, dispenso::ForceQueuingTag());
}

template <typename SetT, typename Make>
void runC04T(Case& c, Make make) {
  long n = c.p.i("n"), trigger = c.p.i("trigger"), form = c.p.i("form"), load = c.p.i("load"), cnt = c.p.i("cnt"), scen = c.p.i("scen");
  long mult = (load == 1) ? 1 : 32;
  std::atomic<int> forbiddenRan{0};
  std::atomic<int> inlineCapable{0};
  std::atomic<int> filler{0}; // outlives the pool: plain pool tasks may still be pending when the sets are done
  int me = dsched_tid();
  {
    Gate gate; // declared before the pool: outlives every gate task
    dispenso::ThreadPool pool((size_t)n, (size_t)mult);
    bool gated = false;
    auto closeGate = [&]() {
      if (n > 0 && !gated) {
        gate.close(pool, n);
        gated = true;
      }
    };
    auto forbidden = [&]() {
      forbiddenRan.fetch_add(1);
      if (dsched_tid() == me)
        inlineCapable = 1;
    };
    std::function<void()> ff = forbidden;
    if (trigger == 2) {
      // parent cascade: parent set P runs task T which creates child C (kOn); P is cancelled while T is parked
      dispenso::ConcurrentTaskSet P(pool);
      dispenso::CompletionEvent childMade, goOn;
      std::atomic<int> childCanceledSeen{0};
      bool waitedTrue = false;
      P.schedule(
          [&]() {
            auto C = make(pool, dispenso::ParentCascadeCancel::kOn);
            childMade.notify();
            goOn.wait();
            if (C->canceled())
              childCanceledSeen = 1;
            me = dsched_tid();
            submitForm(*C, form, cnt, ff);
            waitedTrue = C->wait();
          },
          dispenso::ForceQueuingTag());
      if (n == 0) {
        // zero-thread pool ran T inline: it blocks on goOn forever -> not a usable shape
      }
      bool pthrow = c.p.i("pthrow", 0) != 0 && n >= 2;
      if (n > 0) {
        childMade.wait();
        if (pthrow) {
          // the parent is first cancelled by a task that throws (which does not reach the children by itself); the
          // explicit cancel() that follows must still cascade to the kOn child
          dispenso::CompletionEvent threw;
          P.schedule(
              [&]() {
                threw.notify();
                throw Tagged{4242};
              },
              dispenso::ForceQueuingTag());
          threw.wait();
          for (int spin = 0; spin < 2000 && !P.canceled(); ++spin)
            dsched_sleep_ns(2000);
          c.cls("parent_cancelled_by_exception_before_cancel()");
        }
        P.cancel();
        goOn.notify();
      }
      try {
        P.wait();
      } catch (const Tagged&) {
        if (!pthrow)
          throw;
      }
      if (n > 0) {
        if (!childCanceledSeen.load())
          c.fail("cascade-not-cancelled", "child set (ParentCascadeCancel::kOn) not cancelled after parent.cancel() returned");
        if (!waitedTrue)
          c.fail("wait-not-cancelled", "child wait() returned false after cascade cancellation");
      }
    } else {
      auto S = make(pool, dispenso::ParentCascadeCancel::kOff);
      auto establishLoad = [&]() {
        if (n == 0)
          return;
        if (load == 1) {
          closeGate();
          // saturate the pool's global load factor (n * 1): queue > n tasks behind the gates
          for (long i = 0; i < n + 2; ++i)
            pool.schedule([&]() { filler.fetch_add(1); }, dispenso::ForceQueuingTag());
        } else if (load == 2) {
          closeGate(); // workers busy: anything that ignores cancellation would have to run inline or stay queued
        }
      };
      if (scen == 1 && n > 0) {
        // forbidden tasks are queued (workers gated), then the set is cancelled, then the gate opens
        closeGate();
        submitForm(*S, form >= 2 ? form : form + 2, cnt, ff); // force-queued so they are really queued
        S->cancel();
        gate.release();
        bool w = S->wait();
        if (!w)
          c.fail("wait-not-cancelled", "wait() returned false after cancel()");
      } else {
        auto triggerCancel = [&]() {
          if (trigger == 1) {
            S->schedule([]() { throw Tagged{-7}; }, dispenso::ForceQueuingTag());
            bool threw = false;
            try {
              S->wait();
            } catch (const Tagged&) {
              threw = true;
            }
            if (!threw)
              c.fail("no-rethrow", "wait() did not rethrow the task exception");
            if (!S->canceled())
              c.fail("exception-did-not-cancel", "set not cancelled after a task threw and wait() rethrew");
          } else {
            S->cancel();
          }
        };
        if (load == 3 && n > 0) {
          // pool-recursive caller on an overloaded pool: n-1 workers gated, > 1.5n tasks pending, the
          // remaining worker cancels and submits from inside a pool task
          triggerCancel();
          if (n > 1)
            gate.close(pool, n - 1);
          dispenso::CompletionEvent done;
          pool.schedule(
              [&]() {
                for (long i = 0; i < 2 * n + 2; ++i)
                  pool.schedule([&]() { filler.fetch_add(1); }, dispenso::ForceQueuingTag());
                me = dsched_tid();
                submitForm(*S, form, cnt, ff);
                done.notify();
              },
              dispenso::ForceQueuingTag());
          done.wait();
          gate.release();
        } else {
          triggerCancel();
          establishLoad();
          submitForm(*S, form, cnt, ff);
          gate.release();
        }
        bool w = S->wait();
        if (!w)
          c.fail("wait-not-cancelled", "wait() returned false after cancellation");
        if (S->tryWait(1))
          c.fail("trywait-not-cancelled", "tryWait() returned true on a cancelled set");
      }
      gate.release();
    }
    c.phase = "pool-dtor";
  }
  if (forbiddenRan.load() > 0)
    c.fail(std::string("ran-after-cancel:") + (inlineCapable.load() ? "inline" : "queued"),
           std::to_string(forbiddenRan.load()) + " body(ies) scheduled to a cancelled set executed (kind=" + std::to_string(c.p.i("kind")) +
               " trigger=" + std::to_string(trigger) + " form=" + std::to_string(form) + " load=" + std::to_string(load) + " scen=" + std::to_string(scen) + ")");
  c.nontrivial = load != 0 || scen == 1 || trigger == 2;
  c.cls("trigger:" + std::to_string(trigger));
  c.cls("load:" + std::to_string(load));
}

void runC04(Case& c) {
  long kind = c.p.i("kind");
  c.phase = "run";
  if (kind == 0)
    runC04T<dispenso::TaskSet>(c, [](dispenso::ThreadPool& p, dispenso::ParentCascadeCancel pc) { return vf::make_aligned<dispenso::TaskSet>(p, pc); });
  else
    runC04T<dispenso::ConcurrentTaskSet>(c, [kind](dispenso::ThreadPool& p, dispenso::ParentCascadeCancel pc) {
      return vf::make_aligned<dispenso::ConcurrentTaskSet>(p, pc, (dispenso::ssize_t)4, kind == 1 ? dispenso::TaskCost::kLightweight : dispenso::TaskCost::kHeavy);
    });
}

// =============================================================================================
// C46 — dispenso-initiated inline nesting is bounded by a constant
struct DepthProbe {
  std::atomic<int> maxDepth{0};
};
thread_local int t_depth = 0;

void genC46(Rng& r, KV& kv, const Opts& o) {
  kv.set("n", r.range(1, 3));
  kv.set("family", r.range(0, 4)); // 0 pool.schedule chain 1 TaskSet chain 2 CTS light chain 3 CTS heavy chain 4 nested bulk
  kv.set("L", r.pick<long>({40, 80}));
  kv.set("scale", o.thorough() ? 10L : 6L);
  kv.setu("mp", 3000000);
  kv.setu("fp", 600000);
  kv.set("si", r.pick<long>({16, 64, 256}));
  kv.set("st", 0L);
}

int chainDepth(Case& c, long n, long family, long L) {
  DepthProbe dp;
  // everything the tasks touch is declared before the pool, so it outlives every task
  std::atomic<int> filler{0};
  std::atomic<long> ran{0};
  std::function<void(long)> link;
  Gate gate;
  {
    dispenso::ThreadPool pool((size_t)n, 1);
    gate.close(pool, n);
    for (long i = 0; i < 3 * n + 2; ++i)
      pool.schedule([&]() { filler.fetch_add(1); }, dispenso::ForceQueuingTag());
    vf::aligned_ptr<dispenso::TaskSet> ts;
    vf::aligned_ptr<dispenso::ConcurrentTaskSet> cts;
    if (family == 1)
      ts = vf::make_aligned<dispenso::TaskSet>(pool, (ssize_t)1);
    if (family == 2 || family == 4)
      cts = vf::make_aligned<dispenso::ConcurrentTaskSet>(pool, dispenso::TaskCost::kLightweight, (ssize_t)1);
    if (family == 3)
      cts = vf::make_aligned<dispenso::ConcurrentTaskSet>(pool, dispenso::TaskCost::kHeavy, (ssize_t)1);
    int owner = dsched_tid();
    link = [&](long i) {
      ++t_depth;
      int d = t_depth;
      int m = dp.maxDepth.load();
      while (d > m && !dp.maxDepth.compare_exchange_weak(m, d)) {
      }
      ran.fetch_add(1);
      dsched_progress();
      if (i + 1 < L) {
        auto next = [&link, i]() { link(i + 1); };
        if (family == 0)
          pool.schedule(next);
        else if (family == 1 && dsched_tid() == owner)
          ts->schedule(next); // TaskSet: single-thread use; a link running on a worker hands over to the pool
        else if (family == 1)
          pool.schedule(next);
        else if (family == 2 || family == 3)
          cts->schedule(next);
        else
          cts->scheduleBulk(1, [&](size_t) { return next; });
      }
      --t_depth;
    };
    link(0);
    gate.release();
    if (ts)
      ts->wait();
    if (cts)
      cts->wait();
    // links handed to the pool itself are not covered by a set's wait(): let them finish before
    // the sets and the pool go away (a task must not use a pool that is being destroyed)
    for (int spin = 0; spin < 100000 && ran.load() < L; ++spin)
      dsched_sleep_ns(5000);
    ts.reset();
    cts.reset();
    c.phase = "pool-dtor";
  }
  if (ran.load() != L)
    c.fail("chain-incomplete", "chain ran " + std::to_string(ran.load()) + " of " + std::to_string(L) + " links");
  return dp.maxDepth.load();
}

void runC46(Case& c) {
  long n = c.p.i("n"), family = c.p.i("family"), L = c.p.i("L"), scale = c.p.i("scale");
  c.phase = "chain";
  int d1 = chainDepth(c, n, family, L);
  c.phase = "chain-long";
  int d2 = chainDepth(c, n, family, L * scale);
  static const char* fam[] = {"pool.schedule", "TaskSet.schedule", "CTS-light.schedule", "CTS-heavy.schedule", "CTS.scheduleBulk"};
  // metamorphic relation: a `scale`x longer chain may not nest deeper (beyond a small constant)
  // violation iff the longer chain nests deeper AND beyond any plausible constant (kMaxInlineDepth is 32)
  if (d2 > d1 + 4 && d2 > 48)
    c.fail(std::string("unbounded-depth:") + fam[family], std::string(fam[family]) + " chain under overload: inline nesting depth " + std::to_string(d1) +
                                                             " for L=" + std::to_string(L) + " but " + std::to_string(d2) + " for L=" +
                                                             std::to_string(L * scale) + " (grows with the number of tasks)");
  c.nontrivial = d1 >= 2;
  c.cls(std::string("family:") + fam[family]);
  if (d1 >= 2)
    c.cls("inline_path_taken");
  c.sample = "depth(L)=" + std::to_string(d1) + " depth(" + std::to_string(scale) + "L)=" + std::to_string(d2);
}

const vf::Prop kProps[] = {
    {"C01", "prog", genC01, runC01, vf::kE1, 3000, 120000,
     ">=2 threads executed task bodies and a body ran on another thread while a submission call was still open"},
    {"C02", "prog", genC02, runC02, vf::kE1, 3000, 120000, "a task of some set ran on another thread while a wait()/tryWait() call was open"},
    {"C02", "forkjoin", genC02fj, runC02fj, vf::kE1, 1500, 60000,
     "a set task forked children onto its own set and some task of the set ran while the submitter's wait()/tryWait() was open"},
    {"C03", "prog", genC03, runC03, vf::kE1, 3000, 100000, "a resize() call was entered while a submission call was open on another thread"},
    {"C05", "prog", genC05, runC05, vf::kE1, 3000, 120000, ">=2 bodies threw, or a throwing body's exception propagated directly out of schedule()"},
    {"C06", "prog", genC06, runC06, vf::kE1, 2500, 100000, "the program contains nested waits and some body ran while a wait was open"},
    {"C47", "prog", genC47, runC47, vf::kE1, 3000, 100000, "program contains at least one ForceQueuingTag submission (single or bulk)"},
    {"C07", "idle", genC07, runC07, vf::kE1, 1500, 60000, "fewer tasks than parked workers (the wake target choice matters) or more than one wake group (n > 2 with group size 2)"},
    {"C09", "stop", genC09, runC09, vf::kE1, 2500, 80000, "at the call at least one worker was parked in its idle sleep, or workers were busy running tasks"},
    {"C08", "probe", genC08, runC08, vf::kE1, 1200, 50000, "history contains a resize (classified further: the resize overlapped an open submission)"},
    {"C04", "cancel", genC04, runC04, vf::kE1, 3000, 100000, "submission under load (gated/saturated pool), or tasks queued behind gates at cancel time, or parent cascade"},
    {"C46", "chain", genC46, runC46, vf::kE1, 300, 6000, "the inline path was actually taken (nesting depth >= 2 observed)"},
};

} // namespace

int main(int argc, char** argv) {
  return vf::runMain(argc, argv, kProps, (int)(sizeof kProps / sizeof kProps[0]));
}
