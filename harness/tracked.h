// Lifetime-tracked element types for the sequential container models (C32, C37-C40, C42).
// Every construction registers the object's address, every destruction removes it; constructing over
// a live object, destroying or touching a dead one, and the balance live == expected are oracles.
#pragma once
#include <cstdint>
#include <cstdio>
#include <cstdlib>
#include <cstring>
#include <new>
#include <utility>
#include <string>
#include <unordered_set>

namespace trk {

struct Registry {
  std::unordered_set<const void*> live;
  long constructed = 0, destroyed = 0, copies = 0, moves = 0;
  std::string firstError; // first lifetime violation observed
  void err(const std::string& s) {
    if (firstError.empty())
      firstError = s;
  }
  void reset() {
    live.clear();
    constructed = destroyed = copies = moves = 0;
    firstError.clear();
  }
};
inline Registry& reg() {
  static Registry r;
  return r;
}

template <size_t Pad, size_t Align = alignof(int64_t)>
struct alignas(Align) Tracked {
  static constexpr uint32_t kMagic = 0x7E57ED00u;
  int64_t v;
  uint32_t magic;
  bool movedFrom = false;
  char pad[Pad ? Pad : 1];

  void born() {
    magic = kMagic;
    auto& r = reg();
    ++r.constructed;
    if (!r.live.insert(this).second)
      r.err("object constructed over a live object (previous one never destroyed)");
    if (reinterpret_cast<uintptr_t>(this) % Align != 0)
      r.err("object constructed at an address that is not aligned to alignof(T)=" + std::to_string(Align));
  }
  bool alive(const char* what) const {
    auto& r = reg();
    if (!r.live.count(this)) {
      r.err(std::string(what) + " on an object that is not alive (never constructed or already destroyed)");
      return false;
    }
    return true;
  }
  Tracked() : v(0) {
    born();
  }
  Tracked(int64_t x) : v(x) {
    born();
  }
  Tracked(const Tracked& o) : v(o.v) {
    o.alive("copy-construct from");
    ++reg().copies;
    born();
  }
  Tracked(Tracked&& o) noexcept : v(o.v) {
    o.alive("move-construct from");
    o.movedFrom = true;
    ++reg().moves;
    born();
  }
  Tracked& operator=(const Tracked& o) {
    alive("copy-assign to");
    o.alive("copy-assign from");
    v = o.v;
    movedFrom = false;
    ++reg().copies;
    return *this;
  }
  Tracked& operator=(Tracked&& o) noexcept {
    alive("move-assign to");
    o.alive("move-assign from");
    v = o.v;
    movedFrom = false;
    if (&o != this)
      o.movedFrom = true;
    ++reg().moves;
    return *this;
  }
  ~Tracked() {
    auto& r = reg();
    ++r.destroyed;
    if (!r.live.erase(this))
      r.err("destructor run on an object that is not alive (double destroy)");
    magic = 0xDEADDEADu;
  }
  int64_t get() const {
    alive("read");
    return v;
  }
  friend bool operator==(const Tracked& a, const Tracked& b) {
    return a.get() == b.get();
  }
  friend bool operator!=(const Tracked& a, const Tracked& b) {
    return !(a == b);
  }
  friend bool operator<(const Tracked& a, const Tracked& b) {
    return a.get() < b.get();
  }
};

template <typename T>
inline int64_t valueOf(const T& t) {
  return t.get();
}
inline int64_t valueOf(const std::string& s) {
  return s.empty() ? -1 : strtoll(s.c_str(), nullptr, 10); // "" (default constructed) models as -1: sorts before every value
}
inline int64_t valueOf(const int64_t& x) {
  return x;
}
template <typename T>
struct Make {
  static T of(int64_t v) {
    return T(v);
  }
  static int64_t defaultValue() {
    return 0;
  }
};
template <>
struct Make<std::string> {
  // long enough to defeat the small-string optimisation: every element owns heap memory (ASan/LSan see leaks)
  // fixed width, so that string order == numeric order for the non-negative values the generators use
  static std::string of(int64_t v) {
    char b[32];
    snprintf(b, sizeof b, "%012lld", (long long)v);
    std::string s = b;
    s += std::string(40, ' ');
    return s;
  }
  static int64_t defaultValue() {
    return -1;
  }
};

// Heap holder that honours over-alignment in C++14 (plain `new` does not; dispenso's containers
// have cache-line aligned members, so heap-allocating one with `new` would be a harness error).
template <typename T>
struct Box {
  T* p = nullptr;
  Box() {}
  Box(const Box&) = delete;
  Box& operator=(const Box&) = delete;
  ~Box() {
    reset();
  }
  template <typename... A>
  void emplace(A&&... a) {
    reset();
    void* mem = nullptr;
    if (posix_memalign(&mem, alignof(T) < sizeof(void*) ? sizeof(void*) : alignof(T), sizeof(T)) != 0)
      abort();
    p = new (mem) T(std::forward<A>(a)...);
  }
  void reset() {
    if (p) {
      p->~T();
      free(p);
      p = nullptr;
    }
  }
  T& operator*() {
    return *p;
  }
  T* operator->() {
    return p;
  }
};

} // namespace trk
