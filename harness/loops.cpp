// Harness family "loops": parallel_for partition (C12), granularity (C13), state exclusivity (C14),
// maxThreads bound (C48); for_each (C15); parallel_invoke (C16). Built twice: native (real threads,
// bulk of the input space) and dsched (E1, generated schedules for the racy parts). The eight
// index-type instantiations of the parallel_for driver live in loops_parts/*.cpp (parallel build).
#include "loops_common.h"

namespace vfl {
extern template void runTyped<int8_t>(Case&, unsigned);
extern template void runTyped<uint8_t>(Case&, unsigned);
extern template void runTyped<int16_t>(Case&, unsigned);
extern template void runTyped<uint16_t>(Case&, unsigned);
extern template void runTyped<int32_t>(Case&, unsigned);
extern template void runTyped<uint32_t>(Case&, unsigned);
extern template void runTyped<int64_t>(Case&, unsigned);
extern template void runTyped<uint64_t>(Case&, unsigned);
} // namespace vfl
using namespace vfl;

namespace {

void dispatch(Case& c, unsigned oracles) {
  switch (c.p.i("ty")) {
    case 0:
      runTyped<int8_t>(c, oracles);
      break;
    case 1:
      runTyped<uint8_t>(c, oracles);
      break;
    case 2:
      runTyped<int16_t>(c, oracles);
      break;
    case 3:
      runTyped<uint16_t>(c, oracles);
      break;
    case 4:
      runTyped<int32_t>(c, oracles);
      break;
    case 5:
      runTyped<uint32_t>(c, oracles);
      break;
    case 6:
      runTyped<int64_t>(c, oracles);
      break;
    default:
      runTyped<uint64_t>(c, oracles);
      break;
  }
}

// ---------------------------------------------------------------------------------------------
// generators
void limitsOf(long ty, i128& lo, i128& hi) {
  static const i128 los[] = {-128, 0, -32768, 0, -(i128)2147483648LL, 0, (i128)INT64_MIN, 0};
  static const i128 his[] = {127, 255, 32767, 65535, 2147483647LL, 4294967295LL, (i128)INT64_MAX, (i128)UINT64_MAX};
  lo = los[ty];
  hi = his[ty];
}

struct LoopGen {
  bool e1;
  bool needRangeForm; // C13 needs chunk sizes
  bool needStates;
  bool needGran;
  bool allow63; // generate the size class (2^62, 2^63) (C12 only)
};

void genLoop(Rng& r, KV& kv, const Opts& o, const LoopGen& g) {
  long ty = r.range(0, 7);
  if (getenv("VF_TY")) // debugging aid: restrict the index type
    ty = atoi(getenv("VF_TY"));
  long state = g.needStates ? r.range(1, 3) : r.pick<long>({0, 0, 1, 2, 3});
  if (state >= 2 && ty != 4 && ty != 6)
    ty = r.chance(1, 2) ? 4 : 6; // deque/list state containers are instantiated for int32/int64 only
  kv.set("ty", ty);
  i128 lo, hi;
  limitsOf(ty, lo, hi);
  long n = r.range(0, g.e1 ? 3 : 4);
  // large pools (native only): more than 16 participating workers take the multi-group dynamic path
  if (!g.e1 && r.chance(1, 6))
    n = r.pick<long>({6, 8, 12, 15, 16, 17, 20});
  if (g.e1 && o.thorough() && r.chance(1, 8))
    n = r.range(4, 5);
  kv.set("n", n);
  long chunking = r.pick<long>({0, 0, 1, 1, 1, 2});
  long form = g.needRangeForm ? 1 : r.range(0, 1);
  // size classes
  i128 maxSize = hi - lo;
  if (ty == 6 || ty == 7)
    maxSize = (i128)INT64_MAX; // library size_type for signed is int64; keep unsigned 64 in the same domain
  if (ty == 7)
    maxSize = (i128)UINT64_MAX;
  i128 size;
  long sc = r.range(0, 99);
  long smallMax = g.e1 ? 40 : 600;
  if (sc < 6)
    size = 0;
  else if (sc < 14)
    size = 1;
  else if (sc < 30)
    size = r.range(2, n + 3);
  else if (sc < 75)
    size = r.range(2, smallMax);
  else if (sc < 85)
    size = -(i128)r.range(1, 50); // reversed
  else { // huge: only in range-functor form (cost per chunk, not per index)
    form = 1;
    // documented domain (ChunkedRange comment): range sizes that fit int64_t. Sizes above 2^62 are a
    // separate class ("size63") so that a known finding there can be excluded by construction.
    long maxBits = getenv("VF_MAXBITS") ? atoi(getenv("VF_MAXBITS")) : 62;
    int bits = (int)r.range(10, maxBits);
    unsigned __int128 u = ((unsigned __int128)r.next()) >> (64 - bits > 0 ? 64 - bits : 0);
    size = (i128)u;
    if (g.allow63 && r.chance(1, 4) && !o.isKnown("size63") && !getenv("VF_NO63")) {
      size = (i128)INT64_MAX - (i128)r.range(0, 3);
      if (r.chance(1, 2))
        size = ((i128)1 << 62) + (i128)(r.next() >> 2);
    }
  }
  if (maxSize > (i128)INT64_MAX)
    maxSize = (i128)INT64_MAX;
  if (size > maxSize)
    size = maxSize;
  // start: edge biased
  i128 start;
  long st = r.range(0, 9);
  if (st == 0)
    start = lo;
  else if (st == 1)
    start = lo + 1;
  else if (st == 2)
    start = hi - (size > 0 ? size : 0); // ends exactly at the type's max
  else if (st == 3)
    start = hi - (size > 0 ? size : 0) - 1;
  else if (st == 4)
    start = 0;
  else if (st == 5)
    start = -(i128)(size > 0 ? size / 2 : 0); // straddles zero
  else {
    i128 span = hi - lo - (size > 0 ? size : 0);
    unsigned __int128 u = (unsigned __int128)r.next();
    start = lo + (span > 0 ? (i128)(u % ((unsigned __int128)span + 1)) : 0);
  }
  if (start < lo)
    start = lo;
  if (size > 0 && start + size > hi)
    start = hi - size;
  if (start < lo) {
    start = lo;
    size = hi - lo;
  }
  i128 end = start + size;
  if (end < lo)
    end = lo;
  // signed 64-bit: the library's size_type is int64 -> keep end - start <= INT64_MAX (documented limit)
  if (ty == 6 && end - start > (i128)INT64_MAX)
    end = start + (i128)INT64_MAX;
  // focus class "few granular chunks + tail": size = k*gran + r with k around the worker count
  // (fewer chunks than workers, as many, one more) and 0 < r < gran; the paths that treat the tail
  // specially (static / dynamic, wait / no wait) and the maxThreads clamp by granularity live here
  long focusGran = 0;
  if (r.chance(1, 5) && hi - lo >= 200) {
    focusGran = r.pick<long>({2, 3, 4, 8, 16});
    long k = r.range(1, n + 2);
    if (r.chance(1, 4))
      k = r.range(1, 12);
    long rem = r.range(1, focusGran - 1);
    i128 sz = (i128)k * focusGran + rem;
    if (sz > hi - lo)
      sz = hi - lo;
    if (start + sz > hi)
      start = hi - sz;
    end = start + sz;
    if (chunking == 2)
      chunking = r.range(0, 1);
  }
  // focus class "short range, explicit small chunk": no more items than workers
  bool shortExplicit = false;
  if (!focusGran && r.chance(1, 10) && n >= 1) {
    shortExplicit = true;
    i128 sz = r.range(2, n + 1);
    if (start + sz > hi)
      start = hi - sz;
    end = start + sz;
    chunking = 2;
    form = 1;
  }
  if (end - start > ((i128)1 << 62)) {
    if (g.allow63 && !o.isKnown("size63") && !getenv("VF_NO63"))
      kv.set("sigclass", "size63"); // failures of this input class are reported under one signature
    else
      end = start + ((i128)1 << 62);
  }
  kv.set("s", s128(start));
  kv.set("e", s128(end));
  kv.set("chunking", chunking);
  kv.set("form", form);
  if (chunking == 2) {
    // explicit chunk >= 1, number of chunks bounded (<= ~2000) so the call terminates quickly
    i128 sz = end > start ? end - start : 1;
    i128 minChunk = sz / 2000 + 1;
    i128 chunk = minChunk + (i128)r.range(0, 8) * (minChunk > 4 ? minChunk / 4 : 1);
    if (r.chance(1, 4))
      chunk = sz + r.range(0, 2);
    i128 tmax = (ty == 7) ? (i128)UINT64_MAX : hi;
    if (chunk >= tmax)
      chunk = tmax - 1; // max() is the kStatic sentinel
    if (chunk < 1)
      chunk = 1;
    if (chunk > (i128)INT64_MAX)
      chunk = (i128)INT64_MAX;
    if (shortExplicit)
      chunk = r.range(1, 2);
    kv.set("chunk", s128(chunk));
    kv.set("form", 1L);
  }
  kv.set("maxT", r.chance(1, 3) ? 0x7fffffffL : r.range(0, n + 2));
  if (focusGran && r.chance(1, 2))
    kv.set("maxT", r.range(2, std::max<long>(2, n)));
  kv.set("wait", r.chance(2, 3) ? 1L : 0L);
  kv.set("minItems", r.pick<long>({1, 1, 1, 2, 7, 100}));
  if (focusGran && !r.chance(1, 4))
    kv.set("minItems", 1L);
  long gran = g.needGran ? r.pick<long>({2, 3, 4, 7, 8, 16, 64}) : r.pick<long>({1, 1, 1, 2, 3, 8, 64});
  if (focusGran)
    gran = focusGran;
  kv.set("gran", gran);
  kv.set("state", state);
  kv.set("reuse", r.chance(1, 3) ? 1L : 0L);
  kv.set("prefill", r.chance(1, 3) ? r.range(1, 6) : 0L);
  kv.set("nest", r.pick<long>({0, 0, 0, 1, 2, 3, 3})); // 3: called from a worker thread of the pool
  kv.set("cts", (ty == 4 || ty == 6) && r.chance(1, 3) ? 1L : 0L);

  kv.set("burn", g.e1 ? r.range(0, 6) : r.pick<long>({0, 2, 50, 400}));
  if (g.e1) {
    kv.setu("mp", 1500000);
    kv.setu("fp", 500000);
  }
}

void genC12n(Rng& r, KV& kv, const Opts& o) {
  genLoop(r, kv, o, LoopGen{false, false, false, false, true});
}
void genC12e(Rng& r, KV& kv, const Opts& o) {
  genLoop(r, kv, o, LoopGen{true, false, false, false, false});
}
void genC13n(Rng& r, KV& kv, const Opts& o) {
  genLoop(r, kv, o, LoopGen{false, true, false, true, false});
  if (kv.i("chunking") == 2)
    kv.set("chunking", r.range(0, 1));
}
void genC13e(Rng& r, KV& kv, const Opts& o) {
  genLoop(r, kv, o, LoopGen{true, true, false, true, false});
  if (kv.i("chunking") == 2)
    kv.set("chunking", r.range(0, 1));
}
void genC14n(Rng& r, KV& kv, const Opts& o) {
  genLoop(r, kv, o, LoopGen{false, false, true, false, false});
}
void genC14e(Rng& r, KV& kv, const Opts& o) {
  genLoop(r, kv, o, LoopGen{true, false, true, false, false});
}
void genC48e(Rng& r, KV& kv, const Opts& o) {
  genLoop(r, kv, o, LoopGen{true, false, false, false, false});
  kv.set("maxT", r.range(0, kv.i("n") + 1));
  kv.set("burn", r.range(2, 8));
}
void genC48n(Rng& r, KV& kv, const Opts& o) {
  genLoop(r, kv, o, LoopGen{false, false, false, false, false});
  kv.set("maxT", r.range(0, kv.i("n") + 1));
  kv.set("burn", r.pick<long>({50, 400, 2000}));
}

bool touchesLimit(Case& c) {
  i128 lo, hi;
  limitsOf(c.p.i("ty"), lo, hi);
  i128 s = p128(c.p.s("s")), e = p128(c.p.s("e"));
  return s == lo || e == hi || s == lo + 1 || e == hi - 1;
}

void runC12(Case& c) {
  dispatch(c, OR_PART);
  c.nontrivial = c.classes.count("chunks>=2_on>=2_threads") || touchesLimit(c);
  if (touchesLimit(c))
    c.cls("range_touches_type_limit");
}
void runC13(Case& c) {
  dispatch(c, OR_GRAN);
  long g = c.p.i("gran");
  i128 s = p128(c.p.s("s")), e = p128(c.p.s("e"));
  bool offs = g > 1 && e > s && (((s % g) + g) % g != 0 || ((e - s) % g) != 0);
  c.nontrivial = offs && c.sample.find("chunks=1 ") == std::string::npos && c.sample.find("chunks=0 ") == std::string::npos;
  if (offs)
    c.cls("start_or_size_not_multiple_of_g");
}
void runC14(Case& c) {
  dispatch(c, OR_STATE);
  c.nontrivial = c.classes.count("bodies_overlapped") > 0;
}
void runC48(Case& c) {
  dispatch(c, OR_MAXT);
  c.nontrivial = c.classes.count("bodies_overlapped") > 0 || c.p.i("maxT") <= 1;
  if (c.p.i("maxT") <= 1)
    c.cls("maxThreads<=1");
}

// exhaustive 8-bit sweep for C12 (all (start,end) pairs with start<=end, both 8-bit types): the
// case index enumerates the space, the configuration is derived from the seed
void genC12x(Rng& r, KV& kv, const Opts& o) {
  (void)o;
  kv.setu("seed0", r.next() >> 8);
}

} // namespace

#include "loops_more.h"

namespace {

#ifdef VF_E1
const vf::Prop kProps[] = {
    {"C12", "e1", genC12e, runC12, vf::kE1, 1200, 60000, ">=2 chunks ran on >=2 threads, or the range touches a limit of its index type"},
    {"C13", "e1", genC13e, runC13, vf::kE1, 1000, 60000, "start or size is not a multiple of the granularity and >=2 invocations happened"},
    {"C14", "e1", genC14e, runC14, vf::kE1, 1500, 80000, "two body invocations overlapped in time (exclusivity was exercised)"},
    {"C48", "e1", genC48e, runC48, vf::kE1, 1500, 80000, "observed concurrency >= 2, or maxThreads <= 1"},
    {"C48", "fe-e1", genC48fee, runC48fe, vf::kE1, 800, 40000, "for_each: observed concurrency >= 2, or maxThreads <= 1"},
    {"C15", "e1", genC15e, runC15, vf::kE1, 1200, 60000, "n>=2 with >=2 chunks on >=2 threads, or zero-thread pool, or maxThreads in {0,1}"},
    {"C16", "e1", genC16e, runC16, vf::kE1, 1500, 50000, "recursion depth >= 3 and >=2 executing threads"},
};
#else
const vf::Prop kProps[] = {
    {"C12", "native", genC12n, runC12, vf::kBatch, 30000, 3000000, ">=2 chunks ran on >=2 threads, or the range touches a limit of its index type"},
    {"C12", "exh8", genC12x, runC12x, vf::kBatch, 65792, 65792, "every case: one (start,end) pair of an 8-bit index type, enumerated exhaustively"},
    {"C13", "native", genC13n, runC13, vf::kBatch, 30000, 3000000, "start or size is not a multiple of the granularity and >=2 invocations happened"},
    {"C14", "native", genC14n, runC14, vf::kBatch, 20000, 1000000, "two body invocations overlapped in time (exclusivity was exercised)"},
    {"C48", "native", genC48n, runC48, vf::kBatch, 20000, 1000000, "observed concurrency >= 2, or maxThreads <= 1"},
    {"C48", "fe-native", genC48fen, runC48fe, vf::kBatch, 15000, 600000, "for_each: observed concurrency >= 2, or maxThreads <= 1"},
    {"C15", "native", genC15n, runC15, vf::kBatch, 30000, 2000000, "n>=2 with >=2 chunks on >=2 threads, or zero-thread pool, or maxThreads in {0,1}"},
    {"C16", "native", genC16n, runC16, vf::kBatch, 10000, 500000, "recursion depth >= 3 and >=2 executing threads"},
};
#endif

} // namespace

int main(int argc, char** argv) {
  return vf::runMain(argc, argv, kProps, (int)(sizeof kProps / sizeof kProps[0]));
}
