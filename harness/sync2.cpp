// Harness family "sync2" (E1 dsched): C22 RWLock, C23 DistributedRWLock, C24 AsyncRequest,
// C25 ResourcePool, C45 threadId. Generated multi-thread programs, schedules owned by dsched.
#include <common/vf.h>
#include <dsched/dsched.h>

#include <dispenso/async_request.h>
#include <dispenso/distributed_rw_lock.h>
#include <dispenso/resource_pool.h>
#include <dispenso/rw_lock.h>
#include <dispenso/thread_id.h>

#include <atomic>
#include <memory>
#include <thread>
#include <vector>

using vf::Case;
using vf::KV;
using vf::Opts;
using vf::Rng;

static std::vector<std::string> splitOps(const std::string& s, char sep = ',') {
  std::vector<std::string> out;
  size_t i = 0;
  while (i < s.size()) {
    size_t j = s.find(sep, i);
    if (j == std::string::npos)
      j = s.size();
    if (j > i)
      out.push_back(s.substr(i, j - i));
    i = j + 1;
  }
  return out;
}
// start gate: worker threads of a case begin their op lists together (thread start-up is long
// compared with the op lists, above all in the fine-grained build)
struct StartGate {
  std::atomic<int> go{0};
  void wait() {
    while (!go.load())
      dsched_sleep_ns(500);
  }
  void open() {
    go = 1;
  }
};
static void burn(int n) {
  static std::atomic<int> sink{0};
  for (int i = 0; i < n; ++i)
    sink.fetch_add(1, std::memory_order_relaxed);
}

// exclusion monitor shared by C22 / C23
struct Monitor {
  Case& c;
  std::atomic<int> writers{0}, readers{0};
  std::atomic<int> acqW{0}, acqR{0};
  std::atomic<int> overlapWR{0}, overlapWW{0};
  explicit Monitor(Case& cc) : c(cc) {}
  void beginAcquire(bool write) {
    if (write) {
      if (acqW.fetch_add(1) > 0)
        overlapWW = 1;
      if (acqR.load() > 0)
        overlapWR = 1;
    } else {
      acqR.fetch_add(1);
      if (acqW.load() > 0)
        overlapWR = 1;
    }
  }
  void endAcquire(bool write) {
    (write ? acqW : acqR).fetch_sub(1);
  }
  void writeCrit(int b, const char* how) {
    int w = writers.fetch_add(1);
    VF_CHECK(c, w == 0, "two-writers", "%s: write access granted while another writer holds the lock", how);
    VF_CHECK(c, readers.load() == 0, "writer-with-readers", "%s: write access granted while %d reader(s) hold the lock", how, readers.load());
    burn(b);
    VF_CHECK(c, readers.load() == 0, "writer-with-readers", "%s: a reader entered while the writer held the lock", how);
    VF_CHECK(c, writers.load() == 1, "two-writers", "%s: a second writer entered", how);
    writers.fetch_sub(1);
  }
  void readCrit(int b, const char* how) {
    readers.fetch_add(1);
    VF_CHECK(c, writers.load() == 0, "reader-with-writer", "%s: read access granted while a writer holds the lock", how);
    burn(b);
    VF_CHECK(c, writers.load() == 0, "reader-with-writer", "%s: a writer entered while a reader held the lock", how);
    readers.fetch_sub(1);
  }
};

// ------------------------------------------------------------------------------------------------
// C22. Programs: class A (no upgrade): every thread draws from W w R r D ; class B (upgrade): thread 0
// draws from U V (upgrade then unlock / downgrade) and R r, all other threads from R r only ("only
// one thread can try to lock for write concurrently", as lock_upgrade's documentation demands).
static void genC22(Rng& r, KV& kv, const Opts&) {
  long T = r.range(2, 4);
  kv.set("T", T);
  bool upg = r.chance(1, 3);
  kv.set("upg", upg ? 1L : 0L);
  for (long t = 0; t < T; ++t) {
    std::string s;
    long n = r.range(1, 5);
    for (long i = 0; i < n; ++i) {
      const char* o;
      if (upg)
        o = t == 0 ? r.pick<const char*>({"U", "V", "U", "R", "r"}) : r.pick<const char*>({"R", "R", "r"});
      else
        o = r.pick<const char*>({"W", "W", "w", "R", "R", "r", "D"});
      s += o;
      s += ",";
    }
    kv.set("ops" + std::to_string(t), s);
  }
  kv.set("burn", r.range(0, 8));
  kv.setu("mp", 400000);
  kv.setu("fp", 300000);
}
static void runC22(Case& c) {
  long T = c.p.i("T");
  int b = (int)c.p.i("burn");
  dispenso::RWLock L; // on the stack: the class is cache-line aligned, which plain new would not honour in C++14
  Monitor m(c);
  std::atomic<int> tryFailed{0};
  std::vector<std::thread> th;
  for (long t = 0; t < T; ++t) {
    auto ops = splitOps(c.p.s("ops" + std::to_string(t)));
    th.emplace_back([&, ops]() {
      for (auto& op : ops) {
        switch (op[0]) {
          case 'W':
            m.beginAcquire(true);
            L.lock();
            m.endAcquire(true);
            m.writeCrit(b, "lock()");
            L.unlock();
            break;
          case 'w': {
            m.beginAcquire(true);
            bool ok = L.try_lock();
            m.endAcquire(true);
            if (ok) {
              m.writeCrit(b, "try_lock()");
              L.unlock();
            } else
              tryFailed = 1;
            break;
          }
          case 'R':
            m.beginAcquire(false);
            L.lock_shared();
            m.endAcquire(false);
            m.readCrit(b, "lock_shared()");
            L.unlock_shared();
            break;
          case 'r': {
            m.beginAcquire(false);
            bool ok = L.try_lock_shared();
            m.endAcquire(false);
            if (ok) {
              m.readCrit(b, "try_lock_shared()");
              L.unlock_shared();
            } else
              tryFailed = 1;
            break;
          }
          case 'D': // write, downgrade, read
            m.beginAcquire(true);
            L.lock();
            m.endAcquire(true);
            m.writers.fetch_add(1);
            VF_CHECK(c, m.readers.load() == 0 && m.writers.load() == 1, "writer-with-readers", "lock() before downgrade: not exclusive");
            burn(b);
            m.readers.fetch_add(1); // becomes a reader atomically with giving up the write side
            m.writers.fetch_sub(1);
            L.lock_downgrade();
            VF_CHECK(c, m.writers.load() == 0, "reader-with-writer", "after lock_downgrade() a writer is inside");
            burn(b);
            VF_CHECK(c, m.writers.load() == 0, "reader-with-writer", "a writer entered while the downgraded reader held the lock");
            m.readers.fetch_sub(1);
            L.unlock_shared();
            break;
          case 'U':
          case 'V': { // read, upgrade, write, then unlock (U) or downgrade + unlock_shared (V)
            m.beginAcquire(false);
            L.lock_shared();
            m.endAcquire(false);
            m.readers.fetch_add(1);
            VF_CHECK(c, m.writers.load() == 0, "reader-with-writer", "lock_shared() before upgrade granted with a writer inside");
            burn(b);
            m.readers.fetch_sub(1);
            m.beginAcquire(true);
            L.lock_upgrade();
            m.endAcquire(true);
            m.writeCrit(b, "lock_upgrade()");
            if (op[0] == 'U')
              L.unlock();
            else {
              m.readers.fetch_add(1);
              L.lock_downgrade();
              VF_CHECK(c, m.writers.load() == 0, "reader-with-writer", "writer inside after downgrade");
              burn(b);
              m.readers.fetch_sub(1);
              L.unlock_shared();
            }
            break;
          }
        }
        dsched_progress();
      }
    });
  }
  for (auto& t : th)
    t.join();
  // a failed try must have left no trace: the lock is free again
  VF_CHECK(c, L.try_lock(), "not-free-at-end", "after all threads unlocked, try_lock() fails: the lock word was left dirty (failed try_lock rollback / lost release)");
  L.unlock();
  VF_CHECK(c, L.try_lock_shared(), "not-free-at-end", "try_lock_shared() fails on a free lock");
  L.unlock_shared();
  c.nontrivial = m.overlapWR.load() || m.overlapWW.load();
  if (m.overlapWR.load())
    c.cls("writer_and_reader_acquiring_simultaneously");
  if (m.overlapWW.load())
    c.cls("two_writers_acquiring_simultaneously");
  if (tryFailed.load())
    c.cls("a_try_variant_failed");
  if (c.p.i("upg"))
    c.cls("upgrade_program");
}

// ------------------------------------------------------------------------------------------------
// C23
static void genC23(Rng& r, KV& kv, const Opts&) {
  long T = r.range(2, 4);
  kv.set("T", T);
  kv.set("N", r.pick<long>({1, 2, 4, 16}));
  for (long t = 0; t < T; ++t) {
    std::string s;
    long n = r.range(1, 4);
    for (long i = 0; i < n; ++i) {
      const char* o = r.pick<const char*>({"W", "w", "w", "R", "R", "r"});
      s += o;
      if (o[0] == 'R' || o[0] == 'r')
        s += std::to_string(r.pick<long>({0, 0, 1, 2, 3, 5, 15, 16, 17, 255}));
      s += ",";
    }
    kv.set("ops" + std::to_string(t), s);
  }
  kv.set("burn", r.range(0, 6));
  kv.setu("mp", 600000);
  kv.setu("fp", 400000);
}
template <size_t N>
static void runC23T(Case& c) {
  long T = c.p.i("T");
  int b = (int)c.p.i("burn");
  struct alignas(64) Holder {
    dispenso::detail::DistributedRWLockImpl<N> l;
  };
  void* mem = nullptr;
  if (posix_memalign(&mem, 64, sizeof(Holder)) != 0)
    c.inconclusive("alloc");
  Holder* h = new (mem) Holder();
  auto& L = h->l;
  Monitor m(c);
  std::atomic<int> tryFailed{0};
  std::vector<std::thread> th;
  for (long t = 0; t < T; ++t) {
    auto ops = splitOps(c.p.s("ops" + std::to_string(t)));
    th.emplace_back([&, ops]() {
      for (auto& op : ops) {
        size_t slot = op.size() > 1 ? (size_t)strtoul(op.c_str() + 1, nullptr, 10) : 0;
        switch (op[0]) {
          case 'W':
            m.beginAcquire(true);
            L.lock();
            m.endAcquire(true);
            m.writeCrit(b, "lock()");
            L.unlock();
            break;
          case 'w': {
            m.beginAcquire(true);
            bool ok = L.try_lock();
            m.endAcquire(true);
            if (ok) {
              m.writeCrit(b, "try_lock()");
              L.unlock();
            } else
              tryFailed = 1;
            break;
          }
          case 'R':
            m.beginAcquire(false);
            L.lock_shared(slot);
            m.endAcquire(false);
            m.readCrit(b, "lock_shared(slot)");
            L.unlock_shared(slot);
            break;
          case 'r': {
            m.beginAcquire(false);
            bool ok = L.try_lock_shared(slot);
            m.endAcquire(false);
            if (ok) {
              m.readCrit(b, "try_lock_shared(slot)");
              L.unlock_shared(slot);
            } else
              tryFailed = 1;
            break;
          }
        }
        dsched_progress();
      }
    });
  }
  for (auto& t : th)
    t.join();
  VF_CHECK(c, L.try_lock(), "not-free-at-end", "after all threads unlocked, try_lock() fails: a failed try_lock left a trace on some sub-lock");
  L.unlock();
  for (size_t s = 0; s < N; ++s) {
    VF_CHECK(c, L.try_lock_shared(s), "not-free-at-end", "try_lock_shared(%zu) fails on a free lock", s);
    L.unlock_shared(s);
  }
  h->~Holder();
  free(mem);
  c.nontrivial = m.overlapWR.load() || m.overlapWW.load();
  if (m.overlapWR.load())
    c.cls("writer_and_reader_acquiring_simultaneously");
  if (m.overlapWW.load())
    c.cls("two_writers_acquiring_simultaneously");
  if (tryFailed.load())
    c.cls("a_try_variant_failed");
  c.cls("N=" + std::to_string(N));
}
static void runC23(Case& c) {
  switch (c.p.i("N")) {
    case 1:
      return runC23T<1>(c);
    case 2:
      return runC23T<2>(c);
    case 4:
      return runC23T<4>(c);
    default:
      return runC23T<16>(c);
  }
}

// ------------------------------------------------------------------------------------------------
// C24 AsyncRequest. Payload owns heap memory and knows whether it was moved from.
struct Payload {
  std::unique_ptr<int> id; // null after being moved from
  // a wide body: in the fine-grained build every word copied is a schedule point, so a consumer can
  // be preempted in the middle of moving the value out; all words must agree with the tag
  int body[40];
  Payload() {
    for (int& b : body)
      b = -1;
  }
  explicit Payload(int v) : id(new int(v)) {
    for (int& b : body)
      b = v;
  }
  Payload(Payload&& o) noexcept : id(std::move(o.id)) {
    for (int i = 0; i < 40; ++i)
      body[i] = o.body[i];
  }
  Payload& operator=(Payload&& o) noexcept {
    id = std::move(o.id);
    for (int i = 0; i < 40; ++i)
      body[i] = o.body[i];
    return *this;
  }
  bool torn() const {
    for (int i = 0; i < 40; ++i)
      if (body[i] != (id ? *id : body[0]))
        return true;
    return false;
  }
};
static void genC24(Rng& r, KV& kv, const Opts&) {
  long C = r.range(1, 3), P = r.range(1, 3);
  kv.set("C", C);
  kv.set("P", P);
  for (long t = 0; t < C; ++t) {
    std::string s;
    long n = r.range(1, 5);
    for (long i = 0; i < n; ++i)
      s += r.pick<const char*>({"q", "g", "g", "q"}), s += ",";
    kv.set("c" + std::to_string(t), s);
  }
  for (long t = 0; t < P; ++t) {
    std::string s;
    long n = r.range(1, 5);
    for (long i = 0; i < n; ++i)
      s += r.pick<const char*>({"p", "p", "u"}), s += ",";
    kv.set("p" + std::to_string(t), s);
  }
  kv.setu("mp", 300000);
  kv.setu("fp", 200000);
}
static void runC24(Case& c) {
  long C = c.p.i("C"), P = c.p.i("P");
  struct alignas(64) Holder {
    dispenso::AsyncRequest<Payload> req;
  };
  void* mem = nullptr;
  if (posix_memalign(&mem, 64, sizeof(Holder)) != 0)
    c.inconclusive("alloc");
  Holder* h = new (mem) Holder();
  auto& req = h->req;
  static std::atomic<int> delivered[256];
  for (auto& d : delivered)
    d = 0;
  static std::atomic<int> emplacedOk[256];
  for (auto& d : emplacedOk)
    d = 0;
  std::atomic<int> nextVal{1};
  std::atomic<int> requestsStarted{0}, emplaceSucceeded{0}, getsEngaged{0};
  std::atomic<int> getsOpen{0}, getOverlap{0}, empOpen{0}, empOverlap{0};
  StartGate gate;
  std::vector<std::thread> th;
  for (long t = 0; t < C; ++t) {
    auto ops = splitOps(c.p.s("c" + std::to_string(t)));
    th.emplace_back([&, ops]() {
      gate.wait();
      for (auto& op : ops) {
        if (op == "q") {
          requestsStarted.fetch_add(1);
          req.requestUpdate();
        } else {
          if (getsOpen.fetch_add(1) > 0)
            getOverlap = 1;
          auto res = req.getUpdate();
          getsOpen.fetch_sub(1);
          if (res) {
            Payload& pl = res.value();
            VF_CHECK(c, pl.id != nullptr, "moved-from-value-delivered",
                     "getUpdate() returned an engaged result whose payload had already been moved out by another getUpdate()");
            int v = *pl.id;
            VF_CHECK(c, !pl.torn(), "torn-value-delivered", "getUpdate() returned a value that mixes two emplaced values (the slot was overwritten while it was being moved out)");
            VF_CHECK(c, v > 0 && v < 256 && emplacedOk[v].load() >= 0, "phantom-value", "getUpdate() returned a value nobody emplaced");
            int n = delivered[v].fetch_add(1) + 1;
            VF_CHECK(c, n == 1, "value-delivered-twice", "value %d was returned by %d getUpdate() calls", v, n);
            int got = getsEngaged.fetch_add(1) + 1;
            // every delivery consumes one successful emplace whose call has at least started
            (void)got;
          }
        }
        dsched_progress();
      }
    });
  }
  for (long t = 0; t < P; ++t) {
    auto ops = splitOps(c.p.s("p" + std::to_string(t)));
    th.emplace_back([&, ops]() {
      gate.wait();
      for (auto& op : ops) {
        if (op == "p") {
          int v = nextVal.fetch_add(1);
          if (v >= 250)
            continue;
          int reqBefore = requestsStarted.load();
          if (empOpen.fetch_add(1) > 0)
            empOverlap = 1;
          bool ok = req.tryEmplaceUpdate(v);
          empOpen.fetch_sub(1);
          if (ok) {
            emplacedOk[v] = 1;
            int s = emplaceSucceeded.fetch_add(1) + 1;
            // each success consumes one request; requests that had not even started cannot have been consumed
            VF_CHECK(c, s <= requestsStarted.load(), "emplace-without-request",
                     "%d tryEmplaceUpdate() calls succeeded but only %d requestUpdate() calls have been started", s, requestsStarted.load());
            (void)reqBefore;
          }
        } else {
          (void)req.updateRequested();
        }
        dsched_progress();
      }
    });
  }
  gate.open();
  for (auto& t : th)
    t.join();
  VF_CHECK(c, getsEngaged.load() <= emplaceSucceeded.load(), "more-deliveries-than-updates", "%d engaged getUpdate() results for %d successful emplaces",
           getsEngaged.load(), emplaceSucceeded.load());
  // quiescent exactness: one more round trip works
  {
    auto drain = req.getUpdate();
    (void)drain;
    req.requestUpdate();
    if (req.updateRequested()) {
      VF_CHECK(c, req.tryEmplaceUpdate(251), "quiescent-emplace", "tryEmplaceUpdate fails although an update is requested at quiescence");
      auto res = req.getUpdate();
      VF_CHECK(c, (bool)res && res.value().id && *res.value().id == 251, "quiescent-get", "getUpdate() does not return the value just emplaced at quiescence");
    }
  }
  h->~Holder();
  free(mem);
  c.nontrivial = getOverlap.load() || empOverlap.load();
  if (getOverlap.load())
    c.cls("two_getUpdate_calls_overlapped");
  if (empOverlap.load())
    c.cls("two_tryEmplaceUpdate_calls_overlapped");
  if (getsEngaged.load())
    c.cls("values_delivered", getsEngaged.load());
}

// ------------------------------------------------------------------------------------------------
// C25 ResourcePool
struct Res {
  static std::atomic<int> ctor, dtor;
  std::atomic<int> held{0};
  int id;
  explicit Res(int i) : id(i) {
    ctor.fetch_add(1);
  }
  Res(const Res& o) : id(o.id) { // init() result is copied/moved into the pool's storage
    ctor.fetch_add(1);
  }
  ~Res() {
    dtor.fetch_add(1);
  }
};
std::atomic<int> Res::ctor{0}, Res::dtor{0};
static void genC25(Rng& r, KV& kv, const Opts&) {
  long size = r.range(1, 4);
  long T = r.range(2, 5);
  kv.set("size", size);
  kv.set("T", T);
  bool two = size >= T + 1; // only then can a thread safely hold two handles at once (no program-level deadlock)
  for (long t = 0; t < T; ++t) {
    std::string s;
    long n = r.range(1, 4);
    for (long i = 0; i < n; ++i) {
      // a: acquire, hold, release by destruction   m: acquire into a moved-constructed handle, release
      // x: acquire A, acquire B, A = std::move(B) (move-assignment onto a live handle), release
      const char* o = two ? r.pick<const char*>({"a", "m", "x", "x"}) : r.pick<const char*>({"a", "a", "m"});
      s += o;
      s += ",";
    }
    kv.set("ops" + std::to_string(t), s);
  }
  kv.set("burn", r.range(0, 10));
  kv.setu("mp", 800000);
  kv.setu("fp", 400000);
}
static void runC25(Case& c) {
  long size = c.p.i("size"), T = c.p.i("T");
  int b = (int)c.p.i("burn");
  Res::ctor = 0;
  Res::dtor = 0;
  std::atomic<int> heldNow{0}, maxHeld{0}, blockedSeen{0}, moveAssignRelease{0};
  int nextId = 0;
  {
    dispenso::ResourcePool<Res> pool((size_t)size, [&]() { return Res(nextId++); });
    int temporaries = Res::ctor.load() - (int)size; // init() temporaries (copied into the pool's storage)
    VF_CHECK(c, Res::dtor.load() == temporaries, "ctor-balance", "constructor/destructor imbalance right after pool construction");
    auto take = [&](dispenso::Resource<Res>& h) {
      int e = 0;
      VF_CHECK(c, h.get().held.compare_exchange_strong(e, 1), "resource-held-twice", "acquire() handed out resource %d while another handle holds it", h.get().id);
      int n = heldNow.fetch_add(1) + 1;
      VF_CHECK(c, n <= (int)size, "more-than-size-held", "%d resources held at once, pool size %ld", n, size);
      int m = maxHeld.load();
      while (n > m && !maxHeld.compare_exchange_weak(m, n)) {
      }
    };
    auto give = [&](dispenso::Resource<Res>& h) { // call right before the handle releases
      h.get().held.store(0);
      heldNow.fetch_sub(1);
    };
    std::vector<std::thread> th;
    for (long t = 0; t < T; ++t) {
      auto ops = splitOps(c.p.s("ops" + std::to_string(t)));
      th.emplace_back([&, ops]() {
        for (auto& op : ops) {
          if (heldNow.load() == (int)size)
            blockedSeen = 1; // this acquire has to wait (or race for) a release
          if (op == "a") {
            auto h = pool.acquire();
            take(h);
            burn(b);
            give(h);
          } else if (op == "m") {
            auto h0 = pool.acquire();
            take(h0);
            dispenso::Resource<Res> h1(std::move(h0));
            burn(b);
            give(h1);
          } else {
            auto hA = pool.acquire();
            take(hA);
            auto hB = pool.acquire();
            take(hB);
            burn(b);
            give(hA); // the move-assignment releases A's resource
            hA = std::move(hB);
            moveAssignRelease = 1;
            burn(b);
            give(hA);
          }
          dsched_progress();
        }
      });
    }
    for (auto& t : th)
      t.join();
    VF_CHECK(c, heldNow.load() == 0, "held-at-end", "resources still held after all handles were destroyed");
    // all resources are back: size acquires must succeed without blocking forever (deadlock detector) and be distinct
    {
      std::vector<dispenso::Resource<Res>> all;
      for (long i = 0; i < size; ++i) {
        all.push_back(pool.acquire());
        take(all.back());
      }
      for (auto& h : all)
        give(h);
    }
    c.phase = "pool-dtor";
  }
  int built = Res::ctor.load(), gone = Res::dtor.load();
  VF_CHECK(c, built == gone, "resource-lifetime", "resources constructed %d times but destroyed %d times by the end of the pool", built, gone);
  c.nontrivial = blockedSeen.load() || moveAssignRelease.load();
  if (blockedSeen.load())
    c.cls("acquire_called_with_all_resources_held");
  if (moveAssignRelease.load())
    c.cls("move_assignment_released_a_resource");
  c.cls("max_held", maxHeld.load());
}

// ------------------------------------------------------------------------------------------------
// C45 threadId
static void genC45(Rng& r, KV& kv, const Opts& o) {
  kv.set("T", r.range(1, o.thorough() ? 12 : 8));
  kv.set("calls", r.range(1, 5));
  kv.set("burn", r.range(0, 6));
  kv.set("waves", r.range(1, 2));
  kv.setu("mp", 300000);
}
static void runC45(Case& c) {
  long T = c.p.i("T"), calls = c.p.i("calls"), waves = c.p.i("waves");
  int b = (int)c.p.i("burn");
  std::vector<uint64_t> seen;
  std::atomic<int> firstOpen{0}, firstOverlap{0};
  seen.push_back(dispenso::threadId());
  for (long w = 0; w < waves; ++w) {
    std::vector<std::atomic<uint64_t>> ids((size_t)T);
    std::atomic<int> done{0}, release{0};
    std::vector<std::thread> th;
    for (long t = 0; t < T; ++t)
      th.emplace_back([&, t]() {
        burn(b);
        if (firstOpen.fetch_add(1) > 0)
          firstOverlap = 1;
        uint64_t first = dispenso::threadId();
        firstOpen.fetch_sub(1);
        for (long k = 1; k < calls; ++k) {
          burn(b);
          uint64_t again = dispenso::threadId();
          VF_CHECK(c, again == first, "id-changed", "threadId() returned %llu then %llu on the same thread", (unsigned long long)first, (unsigned long long)again);
        }
        ids[(size_t)t] = first;
        done.fetch_add(1);
        // stay alive until every thread of the wave has reported: ids of simultaneously live threads must differ
        while (!release.load())
          dsched_sleep_ns(1000);
      });
    while (done.load() < (int)T)
      dsched_sleep_ns(1000);
    for (long t = 0; t < T; ++t)
      seen.push_back(ids[(size_t)t].load());
    release = 1;
    for (auto& t : th)
      t.join();
  }
  VF_CHECK(c, dispenso::threadId() == seen[0], "id-changed", "main thread's id changed");
  for (size_t i = 0; i < seen.size(); ++i)
    for (size_t j = i + 1; j < seen.size(); ++j)
      VF_CHECK(c, seen[i] != seen[j], "id-duplicate", "two distinct threads obtained the same threadId() %llu", (unsigned long long)seen[i]);
  c.nontrivial = firstOverlap.load() != 0;
  if (firstOverlap.load())
    c.cls("first_calls_overlapped");
}

static const vf::Prop kProps[] = {
    {"C22", "rwlock", genC22, runC22, vf::kE1, 5000, 250000, "a writer and a reader, or two writers, were inside their acquire calls at the same time"},
    {"C23", "drwlock", genC23, runC23, vf::kE1, 4000, 250000, "a writer and a reader, or two writers, were inside their acquire calls at the same time"},
    {"C24", "async", genC24, runC24, vf::kE1, 6000, 300000, "two getUpdate() calls, or two tryEmplaceUpdate() calls, overlapped"},
    {"C25", "respool", genC25, runC25, vf::kE1, 3000, 120000, "an acquire() was issued while all resources were held, or a move-assignment released a resource"},
    {"C45", "tid", genC45, runC45, vf::kE1, 2500, 50000, "the first threadId() calls of two threads overlapped"},
};

int main(int argc, char** argv) {
  return vf::runMain(argc, argv, kProps, (int)(sizeof kProps / sizeof kProps[0]));
}
