// shared part of harness family "loops" (included by loops.cpp and loops_parts/*.cpp)
#pragma once
// Harness family "loops": parallel_for partition (C12), granularity (C13), state exclusivity (C14),
// maxThreads bound (C48); for_each (C15); parallel_invoke (C16). Built twice: native (real threads,
// bulk of the input space) and dsched (E1, generated schedules for the racy parts).
#include <common/vf.h>
#include <dsched/dsched.h>

#include <dispenso/for_each.h>
#include <dispenso/completion_event.h>
#include <dispenso/parallel_for.h>
#include <dispenso/parallel_invoke.h>
#include <dispenso/task_set.h>
#include <dispenso/thread_pool.h>

#include <algorithm>
#include <atomic>
#include <deque>
#include <forward_list>
#include <list>
#include <memory>
#include <thread>
#include <unistd.h>
#include <vector>

using vf::Case;
using vf::KV;
using vf::Opts;
using vf::Rng;

extern "C" {
int dsched_active(void) __attribute__((weak));
int dsched_tid(void) __attribute__((weak));
void dsched_progress(void) __attribute__((weak));
}

namespace vfl {

typedef __int128 i128;

inline bool underE1() {
  return dsched_active && dsched_active();
}
inline int myTid() {
  if (underE1())
    return dsched_tid();
  static std::atomic<int> next{1};
  static thread_local int id = 0;
  if (!id)
    id = next.fetch_add(1);
  return id;
}
inline void progress() {
  if (underE1())
    dsched_progress();
}

struct Interval {
  i128 b, e;
};

struct Log {
  static constexpr size_t kCap = 1 << 16;
  std::vector<Interval> v;
  std::atomic<size_t> n{0};
  std::atomic<int> inBody{0}, maxInBody{0};
  std::atomic<int> leftAll{0};
  std::atomic<unsigned> threads{0};
  std::atomic<int> overflow{0};
  std::atomic<int> stateClash{0};
  std::atomic<int> done{0};
  Log() : v(kCap) {}
  void add(i128 b, i128 e) {
    size_t i = n.fetch_add(1);
    if (i < kCap)
      v[i] = Interval{b, e};
    else
      overflow = 1;
  }
};

inline std::string s128(i128 x) {
  if (x == 0)
    return "0";
  bool neg = x < 0;
  unsigned __int128 u = neg ? (unsigned __int128)(-(x + 1)) + 1 : (unsigned __int128)x;
  std::string s;
  while (u) {
    s.insert(s.begin(), char('0' + (int)(u % 10)));
    u /= 10;
  }
  return neg ? "-" + s : s;
}
inline i128 p128(const std::string& t) {
  bool neg = !t.empty() && t[0] == '-';
  i128 v = 0;
  for (size_t i = neg ? 1 : 0; i < t.size(); ++i)
    v = v * 10 + (t[i] - '0');
  return neg ? -v : v;
}

struct StIdx {
  int id;
};

struct Shared {
  Log* log;
  std::atomic<int>* stateFlags; // per state id: in-use flag
  int burn;
};

inline void enterBody(Shared& sh) {
  int c = sh.log->inBody.fetch_add(1) + 1;
  int m = sh.log->maxInBody.load();
  while (c > m && !sh.log->maxInBody.compare_exchange_weak(m, c)) {
  }
  sh.log->threads.fetch_or(1u << (myTid() & 31));
  static std::atomic<int> sink{0};
  for (int i = 0; i < sh.burn; ++i)
    sink.fetch_add(1, std::memory_order_relaxed);
}
inline void leaveBody(Shared& sh) {
  sh.log->inBody.fetch_sub(1);
  progress();
}
struct StateUse {
  Shared& sh;
  int id;
  StateUse(Shared& s, StIdx& st) : sh(s), id(st.id) {
    int exp = 0;
    if (!sh.stateFlags[id].compare_exchange_strong(exp, 1))
      sh.log->stateClash.fetch_add(1);
  }
  ~StateUse() {
    sh.stateFlags[id].store(0);
  }
};

template <typename T>
struct Lim {
  static i128 lo() {
    return (i128)std::numeric_limits<T>::min();
  }
  static i128 hi() {
    return (i128)std::numeric_limits<T>::max();
  }
};

// ---------------------------------------------------------------------------------------------
template <typename T, typename TS, typename StateC>
void callParFor(Case& c, TS& ts, Shared& sh, StateC* states, std::atomic<int>& nextState, T s, T e, const dispenso::ParForOptions& o) {
  long chunking = c.p.i("chunking");
  long form = c.p.i("form");
  auto defState = [&]() { return StIdx{nextState.fetch_add(1)}; };
  if (chunking == 2) {
    T chunk = (T)c.p.i("chunk");
    auto range = dispenso::makeChunkedRange(s, e, chunk);
    if (states)
      dispenso::parallel_for(
          ts, *states, defState, range,
          [&](StIdx& st, T b, T en) {
            StateUse u(sh, st);
            enterBody(sh);
            sh.log->add((i128)b, (i128)en);
            leaveBody(sh);
          },
          o);
    else
      dispenso::parallel_for(
          ts, range,
          [&](T b, T en) {
            enterBody(sh);
            sh.log->add((i128)b, (i128)en);
            leaveBody(sh);
          },
          o);
    return;
  }
  if (form == 0) { // index functor
    if (states)
      dispenso::parallel_for(
          ts, *states, defState, s, e,
          [&](StIdx& st, T i) {
            StateUse u(sh, st);
            enterBody(sh);
            sh.log->add((i128)i, (i128)i + 1);
            leaveBody(sh);
          },
          o);
    else
      dispenso::parallel_for(
          ts, s, e,
          [&](T i) {
            enterBody(sh);
            sh.log->add((i128)i, (i128)i + 1);
            leaveBody(sh);
          },
          o);
  } else { // range functor
    if (states)
      dispenso::parallel_for(
          ts, *states, defState, s, e,
          [&](StIdx& st, T b, T en) {
            StateUse u(sh, st);
            enterBody(sh);
            sh.log->add((i128)b, (i128)en);
            leaveBody(sh);
          },
          o);
    else
      dispenso::parallel_for(
          ts, s, e,
          [&](T b, T en) {
            enterBody(sh);
            sh.log->add((i128)b, (i128)en);
            leaveBody(sh);
          },
          o);
  }
}

template <typename T, bool kOn, typename TS, typename StateC>
typename std::enable_if<kOn>::type callMaybe(Case& c, TS& ts, Shared& sh, StateC* states, std::atomic<int>& nextState, T s, T e, const dispenso::ParForOptions& o) {
  callParFor<T>(c, ts, sh, states, nextState, s, e, o);
}
template <typename T, bool kOn, typename TS, typename StateC>
typename std::enable_if<!kOn>::type callMaybe(Case&, TS&, Shared&, StateC*, std::atomic<int>&, T, T, const dispenso::ParForOptions&) {}

enum { OR_PART = 1, OR_GRAN = 2, OR_STATE = 4, OR_MAXT = 8 };

inline void checkLog(Case& c, Log& log, i128 s, i128 e, unsigned oracles, const dispenso::ParForOptions& o, size_t statesSize, bool hasStates) {
  if (log.overflow.load())
    c.inconclusive("log overflow");
  size_t n = log.n.load();
  if (oracles & OR_PART) {
    if (log.inBody.load() != 0)
      c.fail("body-running-after-return", "a body invocation was still running when the loop (wait) / taskSet.wait() returned");
    std::vector<Interval> v(log.v.begin(), log.v.begin() + (long)n);
    std::sort(v.begin(), v.end(), [](const Interval& a, const Interval& b) { return a.b < b.b || (a.b == b.b && a.e < b.e); });
    if (e <= s) {
      if (n != 0)
        c.fail("invoked-on-empty-range", "body invoked " + std::to_string(n) + " times for an empty range");
    } else {
      if (n == 0)
        c.fail("not-covered", "no body invocation for non-empty range [" + s128(s) + "," + s128(e) + ")");
      i128 cur = s;
      for (size_t i = 0; i < n; ++i) {
        if (v[i].e <= v[i].b)
          c.fail("empty-or-reversed-chunk", "body called with [" + s128(v[i].b) + "," + s128(v[i].e) + ")");
        if (v[i].b < s || v[i].e > e)
          c.fail("outside-range", "body called with [" + s128(v[i].b) + "," + s128(v[i].e) + ") outside [" + s128(s) + "," + s128(e) + ")");
        if (v[i].b < cur)
          c.fail("overlap", "index " + s128(v[i].b) + " covered twice (chunk [" + s128(v[i].b) + "," + s128(v[i].e) + "))");
        if (v[i].b > cur)
          c.fail("gap", "indices [" + s128(cur) + "," + s128(v[i].b) + ") never visited");
        cur = v[i].e;
      }
      if (cur != e)
        c.fail("gap", "indices [" + s128(cur) + "," + s128(e) + ") never visited");
    }
  }
  if ((oracles & OR_GRAN) && o.granularity > 1) {
    int bad = 0;
    i128 badEnd = 0;
    for (size_t i = 0; i < n; ++i) {
      i128 sz = log.v[i].e - log.v[i].b;
      if (sz % (i128)o.granularity != 0) {
        ++bad;
        badEnd = log.v[i].e;
      }
    }
    if (bad > 1)
      c.fail("granularity:multiple-odd-chunks", std::to_string(bad) + " invocations have a size that is not a multiple of granularity " +
                                                    std::to_string(o.granularity) + " for [" + s128(s) + "," + s128(e) + ")");
    if (bad == 1 && badEnd != e)
      c.fail("granularity:odd-chunk-not-at-end", "the one non-multiple invocation ends at " + s128(badEnd) + ", not at the range end " + s128(e));
  }
  if (oracles & OR_STATE) {
    if (log.stateClash.load())
      c.fail("state-used-concurrently", std::to_string(log.stateClash.load()) + " body invocation(s) found their state object in use by another invocation");
    if (hasStates && e > s && statesSize < 1)
      c.fail("states-empty", "states container empty after the loop");
  }
  if (oracles & OR_MAXT) {
    int lim = (int)std::max<uint32_t>(1, o.maxThreads > 1000000 ? 1000000 : o.maxThreads);
    if (log.maxInBody.load() > lim)
      c.fail("maxThreads-exceeded", std::to_string(log.maxInBody.load()) + " concurrent body invocations with maxThreads=" + std::to_string(o.maxThreads));
    if (o.maxThreads <= 1 && __builtin_popcount(log.threads.load()) > 1)
      c.fail("maxThreads-serial-multi-thread", "maxThreads<=1 but bodies ran on " + std::to_string(__builtin_popcount(log.threads.load())) + " threads");
  }
}

template <typename T, typename TS>
void runOne(Case& c, dispenso::ThreadPool& pool, unsigned oracles, Log& log) {
  i128 s128v = p128(c.p.s("s")), e128v = p128(c.p.s("e"));
  T s = (T)s128v, e = (T)e128v;
  dispenso::ParForOptions o;
  o.maxThreads = (uint32_t)c.p.u("maxT", 0x7fffffff);
  o.wait = c.p.i("wait", 1) != 0;
  o.defaultChunking = c.p.i("chunking") == 1 ? dispenso::ParForChunking::kAdaptive : dispenso::ParForChunking::kStatic;
  o.minItemsPerChunk = (uint32_t)c.p.i("minItems", 1);
  o.granularity = (uint32_t)c.p.i("gran", 1);
  o.reuseExistingState = c.p.i("reuse", 0) != 0;
  long stateKind = c.p.i("state", 0);
  long prefill = c.p.i("prefill", 0);
  static std::atomic<int> flags[4096];
  for (auto& f : flags)
    f.store(0);
  std::atomic<int> nextState{0};
  Shared sh{&log, flags, (int)c.p.i("burn", 2)};
  std::vector<StIdx> sv;
  std::deque<StIdx> sd;
  std::list<StIdx> sl;
  for (long i = 0; i < prefill; ++i) {
    StIdx st{nextState.fetch_add(1)};
    sv.push_back(st);
    sd.push_back(st);
    sl.push_back(st);
  }
  size_t statesSize = 0;
  {
    TS ts(pool);
    // deque / list state containers are instantiated for the 32/64-bit signed index types only
    // (compile time); the generator maps other types to std::vector
    constexpr bool kAllContainers = std::is_same<T, int32_t>::value || std::is_same<T, int64_t>::value;
    if (stateKind == 1 || (stateKind != 0 && !kAllContainers))
      callParFor<T>(c, ts, sh, &sv, nextState, s, e, o);
    else if (stateKind == 2)
      callMaybe<T, kAllContainers>(c, ts, sh, &sd, nextState, s, e, o);
    else if (stateKind == 3)
      callMaybe<T, kAllContainers>(c, ts, sh, &sl, nextState, s, e, o);
    else
      callParFor<T>(c, ts, sh, (std::vector<StIdx>*)nullptr, nextState, s, e, o);
    if (!o.wait)
      ts.wait();
    statesSize = stateKind == 1 ? sv.size() : stateKind == 2 ? sd.size() : stateKind == 3 ? sl.size() : 0;
  }
  if (nextState.load() > 4000)
    c.inconclusive("too many states");
  checkLog(c, log, s128v, e128v, oracles, o, statesSize, stateKind != 0);
}

// ConcurrentTaskSet variant: instantiated for int32/int64 only
template <typename T>
typename std::enable_if<std::is_same<T, int32_t>::value || std::is_same<T, int64_t>::value>::type runOneCts(Case& c, dispenso::ThreadPool& pool, unsigned oracles, Log& log) {
  runOne<T, dispenso::ConcurrentTaskSet>(c, pool, oracles, log);
}
template <typename T>
typename std::enable_if<!(std::is_same<T, int32_t>::value || std::is_same<T, int64_t>::value)>::type runOneCts(Case& c, dispenso::ThreadPool& pool, unsigned oracles, Log& log) {
  runOne<T, dispenso::TaskSet>(c, pool, oracles, log);
}

template <typename T>
void runTyped(Case& c, unsigned oracles) {
  long n = c.p.i("n");
  long nest = c.p.i("nest", 0);
  bool cts = c.p.i("cts", 0) != 0;
  auto logp = std::make_unique<Log>();
  Log& log = *logp;
  {
    dispenso::ThreadPool pool((size_t)n);
    auto go = [&]() {
      if (cts)
        runOneCts<T>(c, pool, oracles, log);
      else
        runOne<T, dispenso::TaskSet>(c, pool, oracles, log);
    };
    if (nest == 0) {
      go();
    } else if (nest == 1) {
      dispenso::TaskSet outer(pool);
      outer.schedule(go, dispenso::ForceQueuingTag());
      outer.wait();
    } else if (nest == 3 && n > 0) {
      // the loop is called from a WORKER thread of the pool (the main thread only blocks on an event, so it cannot pick
      // the task up itself): the caller then has a ring index of its own, and the library maps chunks around it
      dispenso::CompletionEvent done;
      pool.schedule(
          [&]() {
            go();
            done.notify();
          },
          dispenso::ForceQueuingTag());
      done.wait();
    } else {
      // the loop under test runs inside one body of an outer parallel_for
      dispenso::TaskSet outer(pool);
      std::atomic<int> filler{0};
      dispenso::parallel_for(outer, 0, 3, [&](int i) {
        if (i == 1)
          go();
        else
          filler.fetch_add(1);
      });
    }
  }
  unsigned th = log.threads.load();
  size_t nchunks = log.n.load();
  if (nchunks >= 2 && __builtin_popcount(th) >= 2)
    c.cls("chunks>=2_on>=2_threads");
  if (log.maxInBody.load() >= 2)
    c.cls("bodies_overlapped");
  c.sample = "chunks=" + std::to_string(nchunks) + " threads=" + std::to_string(__builtin_popcount(th)) + " maxConc=" + std::to_string(log.maxInBody.load());
}

} // namespace vfl
