// Harness family "arith" (E2 rapidcheck + enumerations): pure functions.
//  C17 static chunking arithmetic (staticChunkSize, staticChunkSizeGranular, StaticChunkMapper)
//  C44 bit-math helpers (nextPow2, log2, log2const, countTrailingZeros, countSetBits,
//      alignToCacheLine) and alignedMalloc
#include <common/vrc.h>

#include <dispenso/detail/math.h>
#include <dispenso/parallel_for.h>
#include <dispenso/platform.h>
#include <dispenso/util.h>

#include <limits>

using vrc::Outcome;
typedef __int128 i128;

static std::string s128(i128 x) {
  if (x == 0)
    return "0";
  bool neg = x < 0;
  unsigned __int128 u = neg ? (unsigned __int128)(-(x + 1)) + 1 : (unsigned __int128)x;
  std::string s;
  while (u) {
    s.insert(s.begin(), char('0' + (int)(u % 10)));
    u /= 10;
  }
  return neg ? "-" + s : s;
}
static i128 p128(const std::string& t) {
  bool neg = !t.empty() && t[0] == '-';
  i128 v = 0;
  for (size_t i = neg ? 1 : 0; i < t.size(); ++i)
    v = v * 10 + (t[i] - '0');
  return neg ? -v : v;
}

// ------------------------------------------------------------------------------------------------
// C17 part "chunk": (items, chunks, granularity)
struct ChunkCase {
  int64_t units, chunks, g; // items = units * g
};
static std::string chunkText(const ChunkCase& c) {
  return std::to_string(c.units) + "," + std::to_string(c.chunks) + "," + std::to_string(c.g);
}
static ChunkCase chunkParse(const std::string& t) {
  auto f = vrc::split(t, ',');
  ChunkCase c{0, 1, 1};
  if (f.size() >= 3) {
    c.units = strtoll(f[0].c_str(), nullptr, 10);
    c.chunks = strtoll(f[1].c_str(), nullptr, 10);
    c.g = strtoll(f[2].c_str(), nullptr, 10);
  }
  return c;
}
// The oracle, both directions: the two-size description (first t chunks of size ceil, the others one
// unit smaller) must (a) be well formed, (b) sum to items, (c) larger first / differ by <= 1 unit hold
// by the representation once 0 <= t <= chunks and small >= 0; plus minimality: ceil is the least
// unit-multiple size with ceil*chunks >= items (so the split is as even as possible).
static Outcome chunkRun(const ChunkCase& c) {
  i128 items = (i128)c.units * c.g;
  dispenso::detail::StaticChunking r = c.g > 1 ? dispenso::detail::staticChunkSizeGranular((dispenso::ssize_t)items, (dispenso::ssize_t)c.chunks, (uint32_t)c.g)
                                               : dispenso::detail::staticChunkSize((dispenso::ssize_t)items, (dispenso::ssize_t)c.chunks);
  i128 t = r.transitionTaskIndex, ceil = r.ceilChunkSize, unit = c.g;
  Outcome o;
  std::string ctx = " [items=" + s128(items) + " chunks=" + std::to_string(c.chunks) + " g=" + std::to_string(c.g) + " -> t=" + s128(t) + " ceil=" + s128(ceil) + "]";
  if (t < 0 || t > c.chunks)
    return Outcome::fail("transition-out-of-range", "transitionTaskIndex outside [0, chunks]" + ctx);
  bool perfect = t == c.chunks;
  i128 small = perfect ? ceil : ceil - unit;
  if (ceil < 0 || small < 0)
    return Outcome::fail("negative-chunk", "negative chunk size" + ctx);
  if (ceil % unit != 0)
    return Outcome::fail("not-unit-multiple", "ceil chunk size is not a multiple of the granularity" + ctx);
  i128 sum = t * ceil + ((i128)c.chunks - t) * small;
  if (sum != items)
    return Outcome::fail("sum-mismatch", "chunk sizes sum to " + s128(sum) + " instead of items" + ctx);
  // minimality / evenness: a smaller ceil could not cover the items
  if (ceil > 0 && (ceil - unit) * (i128)c.chunks >= items && items > 0)
    return Outcome::fail("ceil-not-minimal", "a ceil one unit smaller would still cover all items: split is not as even as possible" + ctx);
  if (items > 0 && t == 0)
    return Outcome::fail("no-large-chunk", "items > 0 but no chunk has the ceil size" + ctx);
  o.nontrivial = !perfect && small > 0;
  if (!perfect)
    o.classes.push_back("two_sizes");
  if (c.g > 1)
    o.classes.push_back("granular");
  if (c.chunks > items / unit)
    o.classes.push_back("more_chunks_than_units");
  if (items > ((i128)1 << 40))
    o.classes.push_back("items>2^40");
  return o;
}
static rc::Gen<ChunkCase> chunkGen(bool) {
  return rc::gen::resize(
      100,
      rc::gen::mapcat(rc::gen::tuple(rc::gen::inRange(0, 10), rc::gen::element<int64_t>(1, 1, 1, 2, 3, 4, 7, 8, 16, 64, 1000, 1 << 20)),
                      [](const std::tuple<int, int64_t>& t) {
                        int64_t g = std::get<1>(t);
                        int mode = std::get<0>(t);
                        // items = units*g <= 2^62 ; chunks >= 1, items + chunks < 2^63
                        int64_t maxUnits = ((int64_t)1 << 61) / g; // items + 2*chunks stays below 2^63: no ssize_t overflow (precondition)
                        rc::Gen<int64_t> units = mode < 5 ? vrc::edgeI64(0, 5000) : vrc::edgeI64(0, maxUnits);
                        return rc::gen::mapcat(units, [g, mode](int64_t u) {
                          rc::Gen<int64_t> chunks = mode % 3 == 0 ? vrc::edgeI64(1, 64)
                              : mode % 3 == 1                       ? vrc::edgeI64(1, std::max<int64_t>(1, u + 3))
                                                                    : vrc::edgeI64(1, (int64_t)1 << 61);
                          return rc::gen::map(chunks, [u, g](int64_t ch) { return ChunkCase{u, ch, g}; });
                        });
                      }));
}

// ------------------------------------------------------------------------------------------------
// C17 part "mapper": StaticChunkMapper<T> boundaries, constructed exactly as parallel_for_staticImpl does
struct MapCase {
  int ty;
  i128 start, size; // size already a multiple of g
  int64_t threads, g;
};
static std::string mapText(const MapCase& c) {
  return std::to_string(c.ty) + "," + s128(c.start) + "," + s128(c.size) + "," + std::to_string(c.threads) + "," + std::to_string(c.g);
}
static MapCase mapParse(const std::string& t) {
  auto f = vrc::split(t, ',');
  MapCase c{4, 0, 0, 1, 1};
  if (f.size() >= 5) {
    c.ty = atoi(f[0].c_str());
    c.start = p128(f[1]);
    c.size = p128(f[2]);
    c.threads = strtoll(f[3].c_str(), nullptr, 10);
    c.g = strtoll(f[4].c_str(), nullptr, 10);
  }
  return c;
}
template <typename T>
static Outcome mapRunT(const MapCase& c) {
  using size_type = typename dispenso::ChunkedRange<T>::size_type;
  T start = (T)c.start, end = (T)(c.start + c.size);
  dispenso::ChunkedRange<T> range(start, end, typename dispenso::ChunkedRange<T>::Static());
  // numThreads as computed by parallel_for_staticImpl: <= size, <= size/g
  size_type numThreads = (size_type)c.threads;
  numThreads = std::min<size_type>(numThreads, range.size());
  if (c.g > 1) {
    size_type byG = range.size() / (size_type)c.g;
    if (byG < numThreads)
      numThreads = std::max<size_type>(1, byG);
  }
  if (numThreads < 1)
    return Outcome();
  auto chunking = c.g > 1 ? dispenso::detail::staticChunkSizeGranular((dispenso::ssize_t)range.size(), (dispenso::ssize_t)numThreads, (uint32_t)c.g)
                          : dispenso::detail::staticChunkSize((dispenso::ssize_t)range.size(), (dispenso::ssize_t)numThreads);
  T chunkSize = (T)chunking.ceilChunkSize;
  bool perfectlyChunked = (size_type)chunking.transitionTaskIndex == numThreads;
  T chunkStep = c.g > 1 ? (T)c.g : T{1};
  T smallChunk = (T)(chunkSize - (perfectlyChunked ? T{0} : chunkStep));
  dispenso::detail::StaticChunkMapper<T> m{numThreads, chunkSize, smallChunk, perfectlyChunked ? numThreads : (size_type)chunking.transitionTaskIndex, range.start,
                                          range.end};
  i128 cur = c.start;
  i128 prevSize = -1;
  std::string ctx = " [type " + std::to_string(c.ty) + " start=" + s128(c.start) + " size=" + s128(c.size) + " threads=" + std::to_string((long long)numThreads) +
      " g=" + std::to_string(c.g) + "]";
  for (size_type i = 0; i < numThreads; ++i) {
    auto be = m(i);
    i128 b = (i128)be.first, e = (i128)be.second;
    if (b != cur)
      return Outcome::fail("mapper-not-contiguous", "chunk " + std::to_string((long long)i) + " starts at " + s128(b) + " but the previous one ended at " + s128(cur) + ctx);
    if (e < b)
      return Outcome::fail("mapper-reversed", "chunk " + std::to_string((long long)i) + " is [" + s128(b) + "," + s128(e) + ")" + ctx);
    i128 sz = e - b;
    if (prevSize >= 0 && sz > prevSize)
      return Outcome::fail("mapper-larger-later", "chunk " + std::to_string((long long)i) + " (" + s128(sz) + ") is larger than its predecessor (" + s128(prevSize) + ")" + ctx);
    if (prevSize >= 0 && prevSize - sz > (i128)c.g && i + 1 != numThreads)
      return Outcome::fail("mapper-uneven", "chunk sizes differ by more than one unit" + ctx);
    if (c.g > 1 && sz % c.g != 0)
      return Outcome::fail("mapper-not-granular", "chunk size " + s128(sz) + " is not a multiple of the granularity" + ctx);
    prevSize = sz;
    cur = e;
  }
  if (cur != c.start + c.size)
    return Outcome::fail("mapper-end", "last chunk ends at " + s128(cur) + " instead of the range end" + ctx);
  Outcome o;
  o.nontrivial = !perfectlyChunked && numThreads >= 2;
  if (!perfectlyChunked)
    o.classes.push_back("two_sizes");
  if (c.start == (i128)std::numeric_limits<T>::min() || c.start + c.size == (i128)std::numeric_limits<T>::max())
    o.classes.push_back("touches_type_limit");
  return o;
}
static void tyLimits(int ty, i128& lo, i128& hi) {
  static const i128 los[] = {-128, 0, -32768, 0, -(i128)2147483648LL, 0, (i128)INT64_MIN, 0};
  static const i128 his[] = {127, 255, 32767, 65535, 2147483647LL, 4294967295LL, (i128)INT64_MAX, (i128)UINT64_MAX};
  lo = los[ty];
  hi = his[ty];
}
static Outcome mapRun(const MapCase& c) {
  switch (c.ty) {
    case 0:
      return mapRunT<int8_t>(c);
    case 1:
      return mapRunT<uint8_t>(c);
    case 2:
      return mapRunT<int16_t>(c);
    case 3:
      return mapRunT<uint16_t>(c);
    case 4:
      return mapRunT<int32_t>(c);
    case 5:
      return mapRunT<uint32_t>(c);
    case 6:
      return mapRunT<int64_t>(c);
    default:
      return mapRunT<uint64_t>(c);
  }
}
static rc::Gen<MapCase> mapGen(bool) {
  return rc::gen::resize(
      100,
      rc::gen::map(rc::gen::tuple(rc::gen::inRange(0, 8), rc::gen::arbitrary<uint64_t>(), rc::gen::arbitrary<uint64_t>(), rc::gen::inRange(1, 40),
                                  rc::gen::element<int64_t>(1, 1, 2, 3, 8, 64), rc::gen::inRange(0, 6)),
                   [](const std::tuple<int, uint64_t, uint64_t, int, int64_t, int>& t) {
                     MapCase c;
                     c.ty = std::get<0>(t);
                     i128 lo, hi;
                     tyLimits(c.ty, lo, hi);
                     c.g = std::get<4>(t);
                     c.threads = std::get<3>(t);
                     // the library's documented domain: sizes that fit int64_t; the wide (> 2^62) class is C12's listed finding
                     i128 maxSize = std::min<i128>(hi - lo, (i128)1 << 62);
                     int sm = std::get<5>(t);
                     i128 size = sm < 3 ? (i128)(std::get<1>(t) % 300) : (i128)((unsigned __int128)std::get<1>(t) % ((unsigned __int128)maxSize + 1));
                     if (size > maxSize)
                       size = maxSize;
                     size -= size % c.g;
                     i128 span = hi - lo - size;
                     int pm = (int)(std::get<2>(t) % 5);
                     i128 start = pm == 0 ? lo : pm == 1 ? hi - size : pm == 2 ? (lo < 0 ? -(size / 2) : lo) : lo + (i128)((unsigned __int128)std::get<2>(t) % ((unsigned __int128)span + 1));
                     if (start < lo)
                       start = lo;
                     if (start + size > hi)
                       start = hi - size;
                     c.start = start;
                     c.size = size;
                     return c;
                   }));
}

// ------------------------------------------------------------------------------------------------
// C44 part "bits": 64-bit values
static uint32_t refLog2(uint64_t v) {
  uint32_t r = 0;
  while (v >>= 1)
    ++r;
  return r;
}
static Outcome bitsCheck64(uint64_t v) {
  std::string ctx = " [v=" + std::to_string(v) + "]";
  // nextPow2: least power of two >= v for 1 <= v <= 2^63; 0 -> 0 (documented)
  if (v <= ((uint64_t)1 << 63)) {
    uint64_t np = dispenso::nextPow2(v);
    if (v == 0) {
      if (np != 0)
        return Outcome::fail("nextPow2", "nextPow2(0) != 0" + ctx);
    } else {
      bool pow2 = np && !(np & (np - 1));
      if (!pow2 || np < v || (np >> 1) >= v)
        return Outcome::fail("nextPow2", "nextPow2 returned " + std::to_string(np) + ctx);
    }
  }
  if (v != 0) {
    uint32_t ref = refLog2(v);
    if (dispenso::log2(v) != ref)
      return Outcome::fail("log2", "log2 returned " + std::to_string(dispenso::log2(v)) + " expected " + std::to_string(ref) + ctx);
    if (dispenso::log2const(v) != ref)
      return Outcome::fail("log2const", "log2const returned " + std::to_string(dispenso::log2const(v)) + " expected " + std::to_string(ref) + ctx);
    if (dispenso::detail::log2((unsigned long long)v) != ref)
      return Outcome::fail("log2-ull", "log2(unsigned long long) wrong" + ctx);
    int32_t tz = 0;
    uint64_t w = v;
    while (!(w & 1)) {
      w >>= 1;
      ++tz;
    }
    if (dispenso::detail::countTrailingZeros(v) != tz)
      return Outcome::fail("ctz", "countTrailingZeros returned " + std::to_string(dispenso::detail::countTrailingZeros(v)) + " expected " + std::to_string(tz) + ctx);
  }
  int32_t pc = 0;
  for (uint64_t w = v; w; w &= w - 1)
    ++pc;
  if (dispenso::detail::countSetBits(v) != pc)
    return Outcome::fail("popcount", "countSetBits returned " + std::to_string(dispenso::detail::countSetBits(v)) + " expected " + std::to_string(pc) + ctx);
  if (v <= UINT64_MAX - dispenso::kCacheLineSize) {
    uintptr_t a = dispenso::alignToCacheLine((uintptr_t)v);
    if (a % dispenso::kCacheLineSize != 0 || a < v || a - v >= dispenso::kCacheLineSize)
      return Outcome::fail("alignToCacheLine", "alignToCacheLine returned " + std::to_string(a) + ctx);
  }
  Outcome o;
  o.nontrivial = v > 1 && (v & (v - 1));
  return o;
}
static Outcome bitsCheck32(uint32_t v) {
  if (v != 0) {
    uint32_t ref = refLog2(v);
    if (dispenso::detail::log2(v) != ref)
      return Outcome::fail("log2-32", "log2(uint32_t " + std::to_string(v) + ") returned " + std::to_string(dispenso::detail::log2(v)));
    if (dispenso::detail::log2const(v) != ref)
      return Outcome::fail("log2const-32", "log2const(uint32_t " + std::to_string(v) + ") returned " + std::to_string(dispenso::detail::log2const(v)));
  }
  return Outcome();
}
static rc::Gen<uint64_t> bitsGen(bool) {
  return rc::gen::resize(100, rc::gen::map(rc::gen::tuple(rc::gen::inRange(0, 10), rc::gen::arbitrary<uint64_t>(), rc::gen::inRange(0, 64), rc::gen::inRange(0, 64),
                                                          rc::gen::inRange(-1, 2)),
                                           [](const std::tuple<int, uint64_t, int, int, int>& t) -> uint64_t {
                                             int m = std::get<0>(t);
                                             uint64_t u = std::get<1>(t);
                                             if (m < 3)
                                               return u;
                                             if (m < 5)
                                               return u >> (std::get<2>(t) % 64);
                                             if (m < 8)
                                               return ((uint64_t)1 << (std::get<2>(t) % 64)) + (uint64_t)(int64_t)std::get<4>(t);
                                             return ((uint64_t)1 << (std::get<2>(t) % 64)) | ((uint64_t)1 << (std::get<3>(t) % 64));
                                           }));
}

// C44 part "all32": every 32-bit input of the 32-bit overloads + the 64-bit functions on the same
// value; 4096 blocks of 2^20 values (thorough: all of them = exhaustive; quick: the first and last
// 2048 values of every block plus all 2^k +- 1 — a 2^24-value stratified sweep)
static Outcome all32Block(uint64_t idx, bool thorough) {
  uint64_t base = idx << 20;
  auto one = [&](uint64_t v) -> Outcome {
    Outcome o = bitsCheck32((uint32_t)v);
    if (!o.ok)
      return o;
    return bitsCheck64(v);
  };
  if (thorough) {
    for (uint64_t v = base; v < base + (1u << 20); ++v) {
      Outcome o = one(v);
      if (!o.ok)
        return o;
    }
  } else {
    for (uint64_t k = 0; k < 2048; ++k) {
      Outcome o = one(base + k);
      if (!o.ok)
        return o;
      o = one(base + (1u << 20) - 1 - k);
      if (!o.ok)
        return o;
    }
  }
  Outcome o;
  o.nontrivial = true;
  o.msg = thorough ? "all 2^20 values of the block" : "first and last 2048 values of the block";
  return o;
}

// C44 part "amalloc": alignedMalloc(bytes, 2^a), a in 0..16
struct AmCase {
  int a;
  uint32_t bytes;
};
static Outcome amRun(const AmCase& c) {
  size_t al = (size_t)1 << c.a;
  void* p = dispenso::alignedMalloc(c.bytes, al);
  if (!p)
    return Outcome::fail("alignedMalloc-null", "alignedMalloc returned nullptr");
  Outcome o;
  if (((uintptr_t)p) % al != 0)
    o = Outcome::fail("alignedMalloc-misaligned", "alignedMalloc(" + std::to_string(c.bytes) + ", " + std::to_string(al) + ") returned an address that is not a multiple of the alignment");
  else {
    memset(p, 0xA5, c.bytes); // writable for `bytes` (ASan variant checks the bounds)
    o.nontrivial = c.a > 4;
    o.classes.push_back("align_2^" + std::to_string(c.a));
  }
  dispenso::alignedFree(p);
  return o;
}

int main(int argc, char** argv) {
  std::vector<std::unique_ptr<vrc::PropBase>> props;
  props.push_back(vrc::make<ChunkCase>(
      "C17", "chunk", 1500000, 30000000, 100, 100, "two distinct chunk sizes are present (items not a multiple of chunks*granularity) and the small one is > 0", chunkGen, chunkText,
      chunkParse, chunkRun));
  props.push_back(vrc::make<MapCase>("C17", "mapper", 1000000, 20000000, 100, 100, "two distinct chunk sizes and >= 2 chunks", mapGen, mapText, mapParse, mapRun));
  // exhaustive small box: items <= 300 units, chunks <= 64, g <= 8  (case = (chunks, g), loops over units)
  props.push_back(vrc::makeEnum(
      "C17", "box", "every (units<=300, chunks<=64, g<=8) triple, enumerated", [](bool) -> uint64_t { return 64 * 8; },
      [](uint64_t idx, bool) {
        int64_t chunks = (int64_t)(idx % 64) + 1, g = (int64_t)(idx / 64) + 1;
        for (int64_t u = 0; u <= 300; ++u) {
          Outcome o = chunkRun(ChunkCase{u, chunks, g});
          if (!o.ok)
            return o;
        }
        Outcome o;
        o.nontrivial = true;
        o.msg = "chunks=" + std::to_string(chunks) + " g=" + std::to_string(g) + " units 0..300";
        return o;
      }));
  props.push_back(vrc::make<uint64_t>(
      "C44", "bits", 3000000, 60000000, 100, 100, "input is neither 0, 1 nor a power of two", bitsGen, [](const uint64_t& v) { return std::to_string(v); },
      [](const std::string& t) { return (uint64_t)strtoull(t.c_str(), nullptr, 10); }, bitsCheck64));
  props.push_back(vrc::makeEnum(
      "C44", "all32", "block of 2^20 consecutive 32-bit inputs (thorough: all of it; quick: 4096 values at its two ends)", [](bool) -> uint64_t { return 4096; }, all32Block));
  props.back()->exhaustiveQuick = false;
  props.push_back(vrc::make<AmCase>(
      "C44", "amalloc", 100000, 1000000, 100, 100, "alignment above 16 bytes (beyond malloc's own guarantee)",
      [](bool) {
        return rc::gen::resize(100, rc::gen::map(rc::gen::tuple(rc::gen::inRange(0, 17), rc::gen::inRange(0, 5000)), [](const std::tuple<int, int>& t) {
                                 return AmCase{std::get<0>(t), (uint32_t)std::get<1>(t)};
                               }));
      },
      [](const AmCase& c) { return std::to_string(c.a) + "," + std::to_string(c.bytes); },
      [](const std::string& t) {
        auto f = vrc::split(t, ',');
        return AmCase{f.size() > 0 ? atoi(f[0].c_str()) : 0, f.size() > 1 ? (uint32_t)atoi(f[1].c_str()) : 0};
      },
      amRun));
  return vrc::runMain(argc, argv, props);
}
