// Harness family "graph": C30 executors respect dependencies / run each node once (build, subgraph
// clear + rebuild sequences), C31 partial re-evaluation == propagated closure. Built native (real
// threads, larger graphs) and under dsched (E1, concurrent executors on small graphs).
#include <common/vf.h>
#include <dsched/dsched.h>

#include <dispenso/graph.h>
#include <dispenso/graph_executor.h>
#include <dispenso/task_set.h>
#include <dispenso/thread_pool.h>

#include <algorithm>
#include <atomic>
#include <memory>
#include <set>
#include <vector>

using vf::Case;
using vf::KV;
using vf::Opts;
using vf::Rng;

extern "C" {
int dsched_active(void) __attribute__((weak));
void dsched_progress(void) __attribute__((weak));
}
static bool underE1() {
  return dsched_active && dsched_active();
}
static void burn(int n) {
  static std::atomic<int> sink{0};
  for (int i = 0; i < n; ++i)
    sink.fetch_add(1, std::memory_order_relaxed);
}

constexpr int kMaxN = 320;

struct Stamp {
  std::atomic<long> clock{1};
  std::atomic<int> runs[kMaxN];
  std::atomic<long> start[kMaxN], end[kMaxN];
  std::atomic<int> running{0}, maxRunning{0};
  void reset() {
    for (int i = 0; i < kMaxN; ++i) {
      runs[i] = 0;
      start[i] = 0;
      end[i] = 0;
    }
    running = 0;
    maxRunning = 0;
  }
};

// edge list text: "j<i,j<i,..." meaning node j depends on node i (i < j in logical ids)
struct Edge {
  int from, to; // from -> to  (to depends on from)
  bool biprop;
};
static std::vector<Edge> parseEdges(const std::string& s) {
  std::vector<Edge> out;
  size_t i = 0;
  while (i < s.size()) {
    size_t j = s.find(',', i);
    if (j == std::string::npos)
      j = s.size();
    std::string t = s.substr(i, j - i);
    size_t lt = t.find_first_of("<~");
    if (lt != std::string::npos)
      out.push_back(Edge{atoi(t.c_str() + lt + 1), atoi(t.c_str()), t[lt] == '~'});
    i = j + 1;
  }
  return out;
}
static std::vector<long> parseList(const std::string& s) {
  std::vector<long> out;
  size_t i = 0;
  while (i < s.size()) {
    size_t j = s.find(',', i);
    if (j == std::string::npos)
      j = s.size();
    if (j > i)
      out.push_back(strtol(s.substr(i, j - i).c_str(), nullptr, 10));
    i = j + 1;
  }
  return out;
}

template <typename G>
struct World {
  using N = typename G::NodeType;
  Case& c;
  int n = 0;
  bool biprop;
  std::unique_ptr<G> g;
  std::vector<N*> node;              // by logical id (nullptr while its subgraph is cleared)
  std::vector<int> sub;              // logical id -> subgraph index (0 = the graph's own subgraph)
  std::vector<std::vector<int>> preds; // shadow DAG: preds[j] = list of i (with multiplicity)
  std::vector<std::vector<int>> bip;   // shadow: biprop neighbours (undirected), for the set closure
  std::vector<bool> complete;
  // shadow bidirectional-propagation sets: declaring a biprop edge merges the sets of its two ends
  // (all members of both), clearing a subgraph removes its nodes from their sets (a set is not split
  // by a removal); a node that never declared a biprop edge is in no set
  std::vector<std::shared_ptr<std::set<int>>> setOf;
  Stamp st;
  int burnN = 0;
  dispenso::ThreadPool* pool = nullptr;
  bool crossSubEdge = false, fanIn2 = false, pulledOutside = false, clearedBothWays = false;

  explicit World(Case& cc) : c(cc) {}

  void mergeSets(int a, int b) {
    auto sa = setOf[(size_t)a], sb = setOf[(size_t)b];
    if (!sa && !sb)
      sa = std::make_shared<std::set<int>>();
    else if (!sa)
      sa = sb;
    else if (sb && sb != sa) {
      for (int m : *sb) {
        sa->insert(m);
        setOf[(size_t)m] = sa;
      }
    }
    sa->insert(a);
    sa->insert(b);
    setOf[(size_t)a] = sa;
    setOf[(size_t)b] = sa;
  }
  void addNode(int id) {
    auto body = [this, id]() {
      int r = st.running.fetch_add(1) + 1;
      int m = st.maxRunning.load();
      while (r > m && !st.maxRunning.compare_exchange_weak(m, r)) {
      }
      st.start[id] = st.clock.fetch_add(1);
      st.runs[id].fetch_add(1);
      burn(burnN);
      st.end[id] = st.clock.fetch_add(1);
      st.running.fetch_sub(1);
      if (underE1())
        dsched_progress();
    };
    int s = sub[(size_t)id];
    node[(size_t)id] = s == 0 ? &g->addNode(body) : &g->subgraph((size_t)s).addNode(body);
    complete[(size_t)id] = false;
  }
  void addEdge(const Edge& e) {
    if (!node[(size_t)e.from] || !node[(size_t)e.to])
      return;
    declare(*node[(size_t)e.to], *node[(size_t)e.from], e.biprop);
    preds[(size_t)e.to].push_back(e.from);
    if (e.biprop && biprop) {
      bip[(size_t)e.to].push_back(e.from);
      bip[(size_t)e.from].push_back(e.to);
      mergeSets(e.to, e.from);
    }
    if (sub[(size_t)e.from] != sub[(size_t)e.to])
      crossSubEdge = true;
    if (preds[(size_t)e.to].size() >= 2)
      fanIn2 = true;
  }
  void declare(dispenso::Node& to, dispenso::Node& from, bool) {
    to.dependsOn(from);
  }
  void declare(dispenso::BiPropNode& to, dispenso::BiPropNode& from, bool bp) {
    if (bp)
      to.biPropDependsOn(from);
    else
      to.dependsOn(from);
  }

  void execute(int executor, const std::set<int>& expect, const char* what) {
    st.reset();
    {
      dispenso::TaskSet ts(*pool);
      dispenso::ConcurrentTaskSet cts(*pool);
      if (executor == 0) {
        dispenso::SingleThreadExecutor ex;
        ex(*g);
      } else if (executor == 1) {
        dispenso::ParallelForExecutor ex;
        ex(ts, *g);
      } else if (executor == 2) {
        dispenso::ParallelForExecutor ex;
        ex(cts, *g);
      } else {
        dispenso::ConcurrentTaskSetExecutor ex;
        ex(cts, *g);
      }
    }
    for (int id = 0; id < n; ++id) {
      if (!node[(size_t)id])
        continue;
      int want = expect.count(id) ? 1 : 0;
      int have = st.runs[id].load();
      if (have != want)
        c.fail(have > want ? (want ? "node-ran-twice" : "complete-node-reran") : "node-not-run",
               std::string(what) + ": node " + std::to_string(id) + " ran " + std::to_string(have) + " times, expected " + std::to_string(want) + " (executor " +
                   std::to_string(executor) + ", " + std::to_string(expect.size()) + " nodes expected to run)");
      if (want) {
        for (int p : preds[(size_t)id])
          if (expect.count(p) && !(st.start[id].load() > st.end[p].load()))
            c.fail("dependency-order", std::string(what) + ": node " + std::to_string(id) + " started (stamp " + std::to_string(st.start[id].load()) +
                                           ") before its predecessor " + std::to_string(p) + " finished (stamp " + std::to_string(st.end[p].load()) + ")");
      }
      if (!node[(size_t)id]->isCompleted())
        c.fail("not-completed-after-run", std::string(what) + ": node " + std::to_string(id) + " is not marked complete after execution");
      complete[(size_t)id] = true;
    }
  }
  std::set<int> incompleteSet() {
    std::set<int> s;
    for (int id = 0; id < n; ++id)
      if (node[(size_t)id] && !complete[(size_t)id])
        s.insert(id);
    return s;
  }
};

template <typename G>
static void runGraph(Case& c, bool partial) {
  auto wp = std::make_unique<World<G>>(c);
  auto& w = *wp;
  w.biprop = c.p.i("kind") == 1;
  w.n = (int)c.p.i("N");
  int nsub = (int)c.p.i("nsub");
  w.burnN = (int)c.p.i("burn");
  w.g = std::make_unique<G>();
  for (int s = 0; s < nsub; ++s)
    w.g->addSubgraph();
  w.node.assign((size_t)w.n, nullptr);
  w.preds.assign((size_t)w.n, {});
  w.bip.assign((size_t)w.n, {});
  w.complete.assign((size_t)w.n, false);
  w.setOf.assign((size_t)w.n, nullptr);
  for (long v : parseList(c.p.s("sub")))
    w.sub.push_back((int)v);
  w.sub.resize((size_t)w.n, 0);
  dispenso::ThreadPool pool((size_t)c.p.i("n"));
  w.pool = &pool;
  // build: nodes in generated order, edges in generated order
  for (long id : parseList(c.p.s("order")))
    w.addNode((int)id);
  std::vector<Edge> edges = parseEdges(c.p.s("edges"));
  for (auto& e : edges)
    w.addEdge(e);
  setAllNodesIncomplete(*w.g);
  int executor = (int)c.p.i("ex");
  {
    std::set<int> all;
    for (int i = 0; i < w.n; ++i)
      all.insert(i);
    w.execute(executor, all, "first evaluation");
  }
  // rounds
  long rounds = c.p.i("rounds");
  for (long r = 0; r < rounds; ++r) {
    std::string act = c.p.s("r" + std::to_string(r));
    int ex2 = (int)c.p.i("rex" + std::to_string(r), executor);
    if (act.empty())
      continue;
    if (act[0] == 'C') { // clear subgraph s, rebuild its nodes with new edges, full re-evaluation
      int s = atoi(act.c_str() + 1);
      if (s <= 0 || s > nsub)
        continue;
      bool in = false, out = false;
      for (int id = 0; id < w.n; ++id)
        if (w.sub[(size_t)id] == s) {
          for (int p : w.preds[(size_t)id])
            if (w.sub[(size_t)p] != s)
              in = true;
        } else
          for (int p : w.preds[(size_t)id])
            if (w.sub[(size_t)p] == s)
              out = true;
      if (in && out)
        w.clearedBothWays = true;
      w.g->subgraph((size_t)s).clear();
      // shadow: drop the cleared nodes and every edge touching them
      for (int id = 0; id < w.n; ++id) {
        if (w.sub[(size_t)id] == s) {
          w.node[(size_t)id] = nullptr;
          w.preds[(size_t)id].clear();
          w.bip[(size_t)id].clear();
          if (w.setOf[(size_t)id]) {
            w.setOf[(size_t)id]->erase(id);
            w.setOf[(size_t)id] = nullptr;
          }
        } else {
          auto& pv = w.preds[(size_t)id];
          pv.erase(std::remove_if(pv.begin(), pv.end(), [&](int p) { return w.sub[(size_t)p] == s; }), pv.end());
          auto& bv = w.bip[(size_t)id];
          bv.erase(std::remove_if(bv.begin(), bv.end(), [&](int p) { return w.sub[(size_t)p] == s; }), bv.end());
        }
      }
      // shadow sets: recompute components over the remaining biprop edges is NOT what the library
      // promises (a removed member does not split a set); keep the union-find, minus the removed ids
      std::vector<long> order = parseList(c.p.s("ro" + std::to_string(r)));
      for (long id : order)
        if (w.sub[(size_t)id] == s)
          w.addNode((int)id);
      for (auto& e : parseEdges(c.p.s("re" + std::to_string(r))))
        if (w.sub[(size_t)e.from] == s || w.sub[(size_t)e.to] == s)
          w.addEdge(e);
      setAllNodesIncomplete(*w.g);
      for (int id = 0; id < w.n; ++id)
        w.complete[(size_t)id] = false;
      std::set<int> all;
      for (int i = 0; i < w.n; ++i)
        if (w.node[(size_t)i])
          all.insert(i);
      w.execute(ex2, all, "evaluation after subgraph clear + rebuild");
    } else if (act[0] == 'M' && partial) { // mark, propagate, re-evaluate
      std::set<int> marked;
      for (long id : parseList(act.substr(1)))
        if (id >= 0 && id < w.n && w.node[(size_t)id])
          marked.insert((int)id);
      for (int id : marked) {
        w.node[(size_t)id]->setIncomplete();
        w.complete[(size_t)id] = false;
      }
      dispenso::ForwardPropagator fp;
      fp(*w.g);
      // reference closure on the shadow DAG
      std::set<int> closure = w.incompleteSet();
      bool grew = true;
      while (grew) {
        grew = false;
        for (int id = 0; id < w.n; ++id)
          if (w.node[(size_t)id] && !closure.count(id))
            for (int p : w.preds[(size_t)id])
              if (closure.count(p)) {
                closure.insert(id);
                grew = true;
                break;
              }
      }
      std::set<int> expect = closure;
      if (w.biprop) {
        for (int id : closure)
          if (w.setOf[(size_t)id])
            for (int m : *w.setOf[(size_t)id])
              if (w.node[(size_t)m] && !expect.count(m)) {
                expect.insert(m);
                w.pulledOutside = true;
              }
      }
      for (int id : expect)
        w.complete[(size_t)id] = false;
      w.execute(ex2, expect, "partial re-evaluation");
      if (!marked.empty() && (int)expect.size() < w.n)
        c.cls("partial_rerun_proper_subset");
    } else if (act[0] == 'A') { // setAllNodesIncomplete => full evaluation
      setAllNodesIncomplete(*w.g);
      std::set<int> all;
      for (int i = 0; i < w.n; ++i)
        if (w.node[(size_t)i]) {
          all.insert(i);
          w.complete[(size_t)i] = false;
        }
      w.execute(ex2, all, "evaluation after setAllNodesIncomplete");
    } else if (act[0] == 'X') { // nothing incomplete: nothing may run
      w.execute(ex2, std::set<int>(), "execution of a fully complete graph");
    }
  }
  if (w.crossSubEdge)
    c.cls("cross_subgraph_edge");
  if (w.fanIn2)
    c.cls("fan_in>=2");
  if (w.pulledOutside)
    c.cls("biprop_set_pulled_in_node_outside_forward_closure");
  if (w.clearedBothWays)
    c.cls("cleared_subgraph_had_incoming_and_outgoing_cross_edges");
  if (w.st.maxRunning.load() >= 2)
    c.cls("nodes_ran_concurrently");
  w.g.reset();
}

// ------------------------------------------------------------------------------------------------
static void genGraph(Rng& r, KV& kv, const Opts& o, bool e1, bool partial) {
  long kind = partial ? r.range(0, 1) : r.pick<long>({0, 0, 1});
  kv.set("kind", kind);
  long N = e1 ? r.range(1, 11) : (r.chance(1, 8) ? r.range(40, 300) : r.range(1, 40));
  (void)o;
  kv.set("N", N);
  long nsub = r.range(0, 3);
  kv.set("nsub", nsub);
  kv.set("n", r.range(0, e1 ? 3 : 4));
  kv.set("ex", r.range(0, 3));
  kv.set("burn", e1 ? r.range(0, 5) : r.pick<long>({0, 0, 20, 200}));
  std::vector<long> sub((size_t)N), order((size_t)N);
  for (long i = 0; i < N; ++i) {
    sub[(size_t)i] = nsub ? r.range(0, nsub) : 0;
    order[(size_t)i] = i;
  }
  for (long i = N - 1; i > 0; --i)
    std::swap(order[(size_t)i], order[(size_t)r.below((uint64_t)i + 1)]);
  kv.setList("sub", sub);
  kv.setList("order", order);
  auto genEdges = [&](auto filter) {
    std::vector<std::string> es;
    long density = r.pick<long>({1, 2, 3, 6});
    for (long j = 1; j < N; ++j) {
      long k = r.range(0, std::min<long>(density, j));
      if (r.chance(1, 10))
        k = std::min<long>(j, 6); // skewed fan-in
      for (long t = 0; t < k; ++t) {
        long i = r.chance(1, 4) ? r.range(std::max<long>(0, j - 3), j - 1) : r.range(0, j - 1);
        if (!filter(i, j))
          continue;
        bool bp = kind == 1 && r.chance(1, 4);
        es.push_back(std::to_string(j) + (bp ? "~" : "<") + std::to_string(i));
      }
    }
    // declared in random order (the API does not ask for any order)
    for (long i = (long)es.size() - 1; i > 0; --i)
      std::swap(es[(size_t)i], es[(size_t)r.below((uint64_t)i + 1)]);
    std::string s;
    for (auto& e : es)
      s += e + ",";
    return s;
  };
  kv.set("edges", genEdges([](long, long) { return true; }));
  long rounds = r.range(0, partial ? 4 : 3);
  kv.set("rounds", rounds);
  for (long q = 0; q < rounds; ++q) {
    kv.set("rex" + std::to_string(q), r.range(0, 3));
    long a = r.range(0, 9);
    if (a < 3 && nsub > 0) {
      long s = r.range(1, nsub);
      kv.set("r" + std::to_string(q), "C" + std::to_string(s));
      std::vector<long> ro = order;
      for (long i = N - 1; i > 0; --i)
        std::swap(ro[(size_t)i], ro[(size_t)r.below((uint64_t)i + 1)]);
      kv.setList("ro" + std::to_string(q), ro);
      kv.set("re" + std::to_string(q), genEdges([&](long i, long j) { return sub[(size_t)i] == s || sub[(size_t)j] == s; }));
    } else if (partial && a < 8) {
      std::string m = "M";
      long k = r.chance(1, 5) ? 0 : r.range(1, std::max<long>(1, std::min<long>(N, 4)));
      for (long t = 0; t < k; ++t)
        m += std::to_string(r.range(0, N - 1)) + ",";
      kv.set("r" + std::to_string(q), m);
    } else if (a == 8)
      kv.set("r" + std::to_string(q), "A");
    else
      kv.set("r" + std::to_string(q), "X");
  }
  if (e1) {
    kv.setu("mp", 1500000);
    kv.setu("fp", 500000);
  }
}
static void genC30n(Rng& r, KV& kv, const Opts& o) {
  genGraph(r, kv, o, false, false);
}
static void genC30e(Rng& r, KV& kv, const Opts& o) {
  genGraph(r, kv, o, true, false);
  kv.set("ex", r.range(1, 3));
}
static void genC31n(Rng& r, KV& kv, const Opts& o) {
  genGraph(r, kv, o, false, true);
}
static void genC31e(Rng& r, KV& kv, const Opts& o) {
  genGraph(r, kv, o, true, true);
}
static void runC30(Case& c) {
  if (c.p.i("kind") == 1)
    runGraph<dispenso::BiPropGraph>(c, false);
  else
    runGraph<dispenso::Graph>(c, false);
  c.nontrivial = c.classes.count("cross_subgraph_edge") && c.classes.count("fan_in>=2");
}
static void runC31(Case& c) {
  if (c.p.i("kind") == 1)
    runGraph<dispenso::BiPropGraph>(c, true);
  else
    runGraph<dispenso::Graph>(c, true);
  c.nontrivial = c.classes.count("partial_rerun_proper_subset") > 0;
}

#ifdef VF_E1
static const vf::Prop kProps[] = {
    {"C30", "e1", genC30e, runC30, vf::kE1, 4000, 100000, ">= 1 cross-subgraph edge and >= 1 node with fan-in >= 2"},
    {"C31", "e1", genC31e, runC31, vf::kE1, 4000, 100000, "a marked, non-empty subset led to a re-run set that is a proper subset of the graph"},
};
#else
static const vf::Prop kProps[] = {
    {"C30", "native", genC30n, runC30, vf::kBatch, 60000, 1500000, ">= 1 cross-subgraph edge and >= 1 node with fan-in >= 2"},
    {"C31", "native", genC31n, runC31, vf::kBatch, 60000, 1500000, "a marked, non-empty subset led to a re-run set that is a proper subset of the graph"},
};
#endif

int main(int argc, char** argv) {
  return vf::runMain(argc, argv, kProps, (int)(sizeof kProps / sizeof kProps[0]));
}
