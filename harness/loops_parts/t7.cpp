#include "../loops_common.h"
namespace vfl {
template void runTyped<uint64_t>(Case&, unsigned);
}
