#include "../loops_common.h"
namespace vfl {
template void runTyped<int8_t>(Case&, unsigned);
}
