#include "../loops_common.h"
namespace vfl {
template void runTyped<int16_t>(Case&, unsigned);
}
