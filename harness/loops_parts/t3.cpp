#include "../loops_common.h"
namespace vfl {
template void runTyped<uint16_t>(Case&, unsigned);
}
