#include "../loops_common.h"
namespace vfl {
template void runTyped<uint8_t>(Case&, unsigned);
}
