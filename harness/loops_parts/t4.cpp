#include "../loops_common.h"
namespace vfl {
template void runTyped<int32_t>(Case&, unsigned);
}
