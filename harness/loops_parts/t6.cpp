#include "../loops_common.h"
namespace vfl {
template void runTyped<int64_t>(Case&, unsigned);
}
