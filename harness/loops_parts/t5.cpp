#include "../loops_common.h"
namespace vfl {
template void runTyped<uint32_t>(Case&, unsigned);
}
