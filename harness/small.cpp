// Harness "small" (E2 rapidcheck; plain and ASan+UBSan builds):
//  C38 SmallVector == std::vector, element addresses aligned, lifetimes balanced
//  C39 OnceFunction invokes / destroys its callable exactly once, at an aligned address
//  C40 OpResult == optional semantics with balanced lifetimes
#include <common/vrc.h>

#include "tracked.h"

#include <dispenso/detail/op_result.h>
#include <dispenso/once_function.h>
#include <dispenso/small_vector.h>

#include <vector>

using vrc::Outcome;

struct Op {
  int kind, target, a, b, v;
};
static std::string opsText(const std::vector<Op>& ops) {
  std::string s;
  for (auto& o : ops)
    s += " " + std::to_string(o.kind) + "," + std::to_string(o.target) + "," + std::to_string(o.a) + "," + std::to_string(o.b) + "," + std::to_string(o.v);
  return s;
}
static std::vector<Op> opsParse(const std::string& t) {
  std::vector<Op> ops;
  for (auto& tok : vrc::split(t, ' ')) {
    auto f = vrc::split(tok, ',');
    if (f.size() >= 5)
      ops.push_back(Op{atoi(f[0].c_str()), atoi(f[1].c_str()), atoi(f[2].c_str()), atoi(f[3].c_str()), atoi(f[4].c_str())});
  }
  return ops;
}
static rc::Gen<std::vector<Op>> opsGen(int kinds) {
  auto opGen = rc::gen::map(rc::gen::tuple(rc::gen::inRange(0, kinds), rc::gen::inRange(0, 4), rc::gen::inRange(0, 1000), rc::gen::inRange(0, 1000), rc::gen::inRange(0, 100000)),
                            [](const std::tuple<int, int, int, int, int>& t) {
                              return Op{std::get<0>(t), std::get<1>(t) == 3 ? 1 : 0, std::get<2>(t), std::get<3>(t), std::get<4>(t)};
                            });
  return rc::gen::container<std::vector<Op>>(rc::gen::resize(100, opGen));
}

// =================================================================================================
// C38
struct SvCase {
  int cfg; // index into the (N, element type) table
  std::vector<Op> ops;
};
enum { sPush, sPushMove, sEmplace, sPop, sResize, sResizeVal, sErase, sClear, sReserve, sCopyCtor, sMoveCtor, sCopyAssign, sMoveAssign, sRebuild, sSelfAssign, sNumKinds };
static const char* kSvNames[] = {"push_back(const&)", "push_back(&&)", "emplace_back", "pop_back", "resize(n)", "resize(n,v)", "erase", "clear", "reserve", "copy-ctor",
                                 "move-ctor", "copy-assign", "move-assign", "rebuild-by-ctor", "self-assign"};

template <typename E, size_t N>
struct SvRunner {
  using Vec = dispenso::SmallVector<E, N>;
  trk::Box<Vec> vec[2];
  std::vector<int64_t> model[2];
  bool tracked;
  long opIndex = 0;
  std::string where;
  bool wentHeap = false, cameBack = false;

  Outcome fail(const std::string& sig, const std::string& msg) {
    return Outcome::fail(sig, "after op #" + std::to_string(opIndex) + " " + where + ": " + msg);
  }
  static E mk(int64_t v) {
    return trk::Make<E>::of(v);
  }
  Outcome compare(int t) {
    Vec& v = *vec[t];
    auto& m = model[t];
    if (v.size() != m.size())
      return fail("size-mismatch", "size() = " + std::to_string(v.size()) + ", std::vector has " + std::to_string(m.size()));
    if (v.empty() != m.empty())
      return fail("empty-mismatch", "empty() disagrees");
    if (v.capacity() < v.size())
      return fail("capacity", "capacity() < size()");
    size_t i = 0;
    for (auto it = v.begin(); it != v.end(); ++it, ++i) {
      if (i >= m.size() || trk::valueOf(*it) != m[i])
        return fail("content-mismatch", "element " + std::to_string(i) + " differs from std::vector");
      if (reinterpret_cast<uintptr_t>(&*it) % alignof(E) != 0)
        return fail("element-misaligned", "element " + std::to_string(i) + " lives at an address that is not a multiple of alignof(T)=" + std::to_string(alignof(E)) +
                                              (v.size() > N ? " (heap storage)" : " (inline storage)"));
    }
    if (i != m.size())
      return fail("content-mismatch", "iteration visited " + std::to_string(i) + " of " + std::to_string(m.size()));
    for (size_t k = 0; k < m.size(); ++k)
      if (trk::valueOf(v[k]) != m[k])
        return fail("content-mismatch", "operator[] differs at " + std::to_string(k));
    if (!m.empty() && (trk::valueOf(v.front()) != m.front() || trk::valueOf(v.back()) != m.back() || v.data() != &v[0]))
      return fail("front-back-mismatch", "front()/back()/data() differ");
    return Outcome();
  }
  Outcome lifetimes() {
    if (!tracked)
      return Outcome();
    auto& r = trk::reg();
    if (!r.firstError.empty())
      return fail("lifetime-error", r.firstError);
    size_t expect = model[0].size() + model[1].size();
    if (r.live.size() != expect)
      return fail("lifetime-balance", std::to_string(r.live.size()) + " element objects alive (constructed " + std::to_string(r.constructed) + ", destroyed " +
                                          std::to_string(r.destroyed) + ") but the vectors hold " + std::to_string(expect));
    return Outcome();
  }
  Outcome run(const SvCase& c) {
    trk::reg().reset();
    vec[0].emplace();
    vec[1].emplace();
    Outcome res;
    for (auto& op : c.ops) {
      ++opIndex;
      int t = op.target & 1;
      Vec& v = *vec[t];
      Vec& w = *vec[1 - t];
      auto& m = model[t];
      auto& mw = model[1 - t];
      size_t n = m.size();
      int kind = ((op.kind % sNumKinds) + sNumKinds) % sNumKinds;
      int64_t val = op.v;
      size_t cnt = (size_t)((unsigned)op.b % (2 * N + 6));
      where = std::string(kSvNames[kind]) + "(a=" + std::to_string(op.a) + ",b=" + std::to_string(op.b) + ") on " + (t ? "B" : "A") + "[size " + std::to_string(n) + ", N=" +
          std::to_string(N) + "]";
      switch (kind) {
        case sPush: {
          E e = mk(val);
          v.push_back(e);
          m.push_back(val);
          break;
        }
        case sPushMove:
          v.push_back(mk(val));
          m.push_back(val);
          break;
        case sEmplace: {
          E& r = v.emplace_back(mk(val));
          if (&r != &v.back())
            return fail("emplace-reference", "emplace_back did not return a reference to the new last element");
          m.push_back(val);
          break;
        }
        case sPop:
          if (n) {
            v.pop_back();
            m.pop_back();
          }
          break;
        case sResize:
          v.resize(cnt);
          m.resize(cnt, trk::Make<E>::defaultValue());
          break;
        case sResizeVal: {
          E e = mk(val);
          v.resize(cnt, e);
          m.resize(cnt, val);
          break;
        }
        case sErase:
          if (n) {
            size_t p = (size_t)((unsigned)op.a % n);
            auto it = v.erase(v.cbegin() + (long)p);
            if ((size_t)(it - v.begin()) != p)
              return fail("returned-position", "erase returned index " + std::to_string(it - v.begin()) + ", std::vector returns " + std::to_string(p));
            m.erase(m.begin() + (long)p);
          }
          break;
        case sClear:
          v.clear();
          m.clear();
          break;
        case sReserve:
          v.reserve(cnt);
          if (v.capacity() < cnt)
            return fail("capacity", "capacity() < reserved amount");
          break;
        case sCopyCtor:
          vec[1 - t].emplace(v);
          mw = m;
          break;
        case sMoveCtor:
          vec[1 - t].emplace(std::move(v));
          mw = m;
          vec[t].emplace();
          m.clear();
          break;
        case sCopyAssign:
          w = v;
          mw = m;
          break;
        case sMoveAssign:
          w = std::move(v);
          mw = m;
          vec[t].emplace();
          m.clear();
          break;
        case sRebuild: {
          int form = (unsigned)op.a % 3;
          if (form == 0) {
            vec[t].emplace(cnt);
            m.assign(cnt, trk::Make<E>::defaultValue());
          } else if (form == 1) {
            E e = mk(val);
            vec[t].emplace(cnt, e);
            m.assign(cnt, val);
          } else {
            vec[t].emplace(std::initializer_list<E>{mk(val), mk(val + 1), mk(val + 2)});
            m = {val, val + 1, val + 2};
          }
          break;
        }
        case sSelfAssign: {
          Vec& same = v;
          v = same;
          break;
        }
      }
      res.classes.push_back(kSvNames[kind]);
      for (int k = 0; k < 2; ++k) {
        if (model[k].size() > N)
          wentHeap = true;
        else if (wentHeap && model[k].size() <= N)
          cameBack = true;
        Outcome o = compare(k);
        if (!o.ok)
          return o;
      }
      Outcome o = lifetimes();
      if (!o.ok)
        return o;
    }
    where = "destruction";
    vec[0].reset();
    vec[1].reset();
    model[0].clear();
    model[1].clear();
    Outcome o = lifetimes();
    if (!o.ok)
      return o;
    res.nontrivial = wentHeap && cameBack;
    if (wentHeap)
      res.classes.push_back("crossed_inline->heap");
    if (alignof(E) > 16 && wentHeap)
      res.classes.push_back("over-aligned_type_on_heap");
    return res;
  }
};

typedef trk::Tracked<0> T8;
typedef trk::Tracked<0, 32> T32;
typedef trk::Tracked<0, 64> T64;
template <typename E, size_t N>
static Outcome svGo(const SvCase& c, bool tracked) {
  SvRunner<E, N> r;
  r.tracked = tracked;
  return r.run(c);
}
static const int kSvConfigs = 12;
static Outcome svRun(const SvCase& c) {
  switch (c.cfg) {
    case 0:
      return svGo<T8, 1>(c, true);
    case 1:
      return svGo<T8, 2>(c, true);
    case 2:
      return svGo<T8, 4>(c, true);
    case 3:
      return svGo<T8, 8>(c, true);
    case 4:
      return svGo<T8, 64>(c, true);
    case 5:
      return svGo<T64, 1>(c, true);
    case 6:
      return svGo<T64, 2>(c, true);
    case 7:
      return svGo<T64, 4>(c, true);
    case 8:
      return svGo<T64, 8>(c, true);
    case 9:
      return svGo<T64, 64>(c, true);
    case 10:
      return svGo<T32, 4>(c, true);
    default:
      return svGo<std::string, 4>(c, false);
  }
}

// =================================================================================================
// C40 OpResult: three objects, model = (engaged, value, compared?) per object
struct OrCase {
  std::vector<Op> ops;
};
enum { oDefault, oValue, oCopyCtor, oMoveCtor, oCopyAssign, oMoveAssign, oSelfAssign, oEmplace, oRead, oNumKinds };
static const char* kOrNames[] = {"default-construct", "value-construct", "copy-construct", "move-construct", "copy-assign", "move-assign", "self-assign", "emplace", "read"};

static Outcome orRun(const OrCase& c) {
  using R = dispenso::detail::OpResult<trk::Tracked<24>>;
  trk::reg().reset();
  struct M {
    bool engaged = false;
    int64_t v = 0;
    bool unspecified = false; // moved-from: engagement not compared until reassigned
  };
  trk::Box<R> obj[3];
  M model[3];
  for (int i = 0; i < 3; ++i)
    obj[i].emplace();
  Outcome res;
  long opIndex = 0;
  bool movedEngaged = false;
  std::string where;
  auto fail = [&](const std::string& sig, const std::string& msg) { return Outcome::fail(sig, "after op #" + std::to_string(opIndex) + " " + where + ": " + msg); };
  for (auto& op : c.ops) {
    ++opIndex;
    int kind = ((op.kind % oNumKinds) + oNumKinds) % oNumKinds;
    int t = (unsigned)op.a % 3, s = (unsigned)op.b % 3;
    int64_t val = op.v;
    where = std::string(kOrNames[kind]) + " target=" + std::to_string(t) + " source=" + std::to_string(s);
    switch (kind) {
      case oDefault:
        obj[t].emplace();
        model[t] = M();
        break;
      case oValue:
        obj[t].emplace(trk::Tracked<24>(val));
        model[t] = M{true, val, false};
        break;
      case oCopyCtor:
        if (s == t || model[s].unspecified)
          break;
        obj[t].emplace(static_cast<const R&>(*obj[s]));
        model[t] = model[s];
        break;
      case oMoveCtor:
        if (s == t || model[s].unspecified)
          break;
        if (model[s].engaged)
          movedEngaged = true;
        obj[t].emplace(std::move(*obj[s]));
        model[t] = model[s];
        model[s].unspecified = true;
        break;
      case oCopyAssign:
        if (s == t || model[s].unspecified || model[t].unspecified)
          break;
        *obj[t] = static_cast<const R&>(*obj[s]);
        model[t] = model[s];
        break;
      case oMoveAssign:
        if (s == t || model[s].unspecified)
          break;
        if (model[s].engaged)
          movedEngaged = true;
        *obj[t] = std::move(*obj[s]);
        model[t] = model[s];
        model[s].unspecified = true;
        break;
      case oSelfAssign: {
        if (model[t].unspecified)
          break;
        R& same = *obj[t];
        *obj[t] = same;
        break;
      }
      case oEmplace: {
        auto& r = obj[t]->emplace(val);
        if (r.get() != val)
          return fail("emplace-value", "emplace returned a reference to a different value");
        model[t] = M{true, val, false};
        break;
      }
      default:
        break;
    }
    res.classes.push_back(kOrNames[kind]);
    // a moved-from object may be engaged or not (unspecified), but if it claims a value the object must be alive
    size_t expectLiveMin = 0, expectLiveMax = 0;
    for (int i = 0; i < 3; ++i) {
      R& o = *obj[i];
      if (!model[i].unspecified) {
        if (o.has_value() != model[i].engaged || (bool)o != model[i].engaged)
          return fail("engagement-mismatch", "object " + std::to_string(i) + ": has_value() = " + std::to_string(o.has_value()) + ", std::optional model says " +
                                                 std::to_string(model[i].engaged));
        if (model[i].engaged && o.value().get() != model[i].v)
          return fail("value-mismatch", "object " + std::to_string(i) + " holds " + std::to_string(o.value().get()) + ", model holds " + std::to_string(model[i].v));
        if (model[i].engaged) {
          ++expectLiveMin;
          ++expectLiveMax;
        }
      } else {
        if (o.has_value()) {
          ++expectLiveMin;
          ++expectLiveMax;
          (void)o.value().get(); // must be alive (registry flags a dead read)
        }
      }
    }
    auto& r = trk::reg();
    if (!r.firstError.empty())
      return fail("lifetime-error", r.firstError);
    if (r.live.size() < expectLiveMin || r.live.size() > expectLiveMax)
      return fail("lifetime-balance", std::to_string(r.live.size()) + " contained objects are alive (constructed " + std::to_string(r.constructed) + ", destroyed " +
                                          std::to_string(r.destroyed) + ") but the OpResults hold " + std::to_string(expectLiveMax));
  }
  for (int i = 0; i < 3; ++i)
    obj[i].reset();
  where = "destruction of all OpResults";
  if (!trk::reg().firstError.empty())
    return fail("lifetime-error", trk::reg().firstError);
  if (!trk::reg().live.empty())
    return fail("lifetime-balance", std::to_string(trk::reg().live.size()) + " contained objects never destroyed");
  res.nontrivial = movedEngaged;
  return res;
}

// =================================================================================================
// C39 OnceFunction
// Inline-stored callables are relocated by memcpy when a OnceFunction moves (documented), so
// instances are counted, not tracked by address; a 0x5A payload pattern tells a live instance
// from a destroyed (0xDD-filled) or corrupted one.
struct OfRecord {
  long constructed = 0, destroyed = 0, invoked = 0, misaligned = 0, invokedDead = 0;
  long alive() const {
    return constructed - destroyed;
  }
};
static OfRecord g_of;
template <size_t Size, size_t Align>
struct alignas(Align) Callable {
  static constexpr size_t kPad = Size;
  char pad[kPad]; // the only member: sizeof == Size rounded up to Align, alignof == Align
  void born() {
    ++g_of.constructed;
    if (reinterpret_cast<uintptr_t>(this) % Align != 0)
      ++g_of.misaligned;
    memset(pad, 0x5A, kPad);
  }
  explicit Callable(uint64_t) {
    born();
  }
  Callable(const Callable&) {
    born();
  }
  Callable(Callable&&) noexcept {
    born();
  }
  ~Callable() {
    ++g_of.destroyed;
    memset(pad, 0xDD, kPad);
  }
  void operator()() const {
    ++g_of.invoked;
    if (reinterpret_cast<uintptr_t>(this) % Align != 0)
      ++g_of.misaligned;
    for (size_t i = 0; i < kPad; ++i)
      if ((unsigned char)pad[i] != 0x5A) {
        ++g_of.invokedDead; // payload corrupted
        break;
      }
  }
};
struct OfCase {
  int type, ctorMode, chain, assign, action;
};
static std::string ofText(const OfCase& c) {
  return std::to_string(c.type) + "," + std::to_string(c.ctorMode) + "," + std::to_string(c.chain) + "," + std::to_string(c.assign) + "," + std::to_string(c.action);
}
static OfCase ofParse(const std::string& t) {
  auto f = vrc::split(t, ',');
  OfCase c{0, 0, 0, 0, 0};
  if (f.size() >= 5)
    c = OfCase{atoi(f[0].c_str()), atoi(f[1].c_str()), atoi(f[2].c_str()), atoi(f[3].c_str()), atoi(f[4].c_str())};
  return c;
}
template <typename F>
static Outcome ofRunT(const OfCase& c, const char* tname) {
  g_of = OfRecord();
  // perturb the heap so that consecutive cases see different malloc residues (an under-aligned
  // allocation is only visible when the returned address happens not to be a multiple of alignof)
  static std::vector<void*> perturb;
  perturb.push_back(malloc(24 + 16 * (size_t)((c.type * 7 + c.chain * 3 + c.ctorMode + c.assign * 5 + c.action) % 23)));
  if (perturb.size() % 3 == 0) // also in the size range of the callable itself (a freed block would otherwise be handed back at the same address every time)
    perturb.push_back(malloc(sizeof(F) + 16 * (perturb.size() % 9)));
  std::string ctx = std::string(" [callable ") + tname + " sizeof=" + std::to_string(sizeof(F)) + " alignof=" + std::to_string(alignof(F)) + " case " + ofText(c) + "]";
  {
    trk::Box<dispenso::OnceFunction> holder[6];
    int cur = 0;
    {
      trk::Box<F> src;
      src.emplace((uint64_t)0xC0FFEE);
      if (c.ctorMode & 1)
        holder[0].emplace(std::move(*src));
      else
        holder[0].emplace(static_cast<const F&>(*src));
    }
    long afterCtor = g_of.alive();
    if (afterCtor != 1)
      return Outcome::fail("once-stored-copies", std::to_string(afterCtor) + " callable instances alive after constructing the OnceFunction (expected exactly the stored one)" + ctx);
    for (int i = 0; i < c.chain && cur < 4; ++i) {
      holder[cur + 1].emplace(std::move(*holder[cur]));
      ++cur;
    }
    if (c.assign) {
      holder[cur + 1].emplace(); // default-constructed (invalid) OnceFunction, then move-assigned into
      *holder[cur + 1] = std::move(*holder[cur]);
      ++cur;
    }
    if (g_of.invoked != 0)
      return Outcome::fail("once-invoked-early", "callable invoked before operator() was called" + ctx);
    if (g_of.alive() != 1)
      return Outcome::fail("once-lost-in-move", std::to_string(g_of.alive()) + " callable instances alive after the move chain" + ctx);
    if (c.action == 0) {
      (*holder[cur])();
      if (g_of.invoked != 1)
        return Outcome::fail("once-invoke-count", "callable invoked " + std::to_string(g_of.invoked) + " times by one operator() call" + ctx);
    } else {
      holder[cur]->cleanupNotRun();
      if (g_of.invoked != 0)
        return Outcome::fail("once-invoke-count", "cleanupNotRun() invoked the callable" + ctx);
    }
    if (g_of.alive() != 0)
      return Outcome::fail("once-not-destroyed", std::to_string(g_of.alive()) + " callable instance(s) still alive after " + (c.action == 0 ? "operator()" : "cleanupNotRun()") + ctx);
  }
  if (g_of.constructed != g_of.destroyed)
    return Outcome::fail("once-lifetime-balance", "constructed " + std::to_string(g_of.constructed) + " != destroyed " + std::to_string(g_of.destroyed) + ctx);
  if (g_of.misaligned)
    return Outcome::fail("once-misaligned", "callable constructed or invoked at an address that is not a multiple of its alignment" + ctx);
  if (g_of.invokedDead)
    return Outcome::fail("once-invoked-dead", "callable invoked on a dead or corrupted instance" + ctx);
  Outcome o;
  bool boundary = sizeof(F) == 56 || sizeof(F) == 64 || (sizeof(F) > 48 && sizeof(F) <= 72) || alignof(F) > 64;
  o.nontrivial = boundary || c.chain >= 2;
  o.classes.push_back(sizeof(F) <= 56 && alignof(F) <= 64 ? "inline" : "spill");
  if (alignof(F) > 16)
    o.classes.push_back("over-aligned");
  return o;
}
#define OF_TYPES(X)                                                                                                                                            \
  X(1, 1) X(8, 8) X(16, 8) X(24, 8) X(32, 8) X(40, 8) X(48, 8) X(56, 8) X(57, 1) X(64, 8) X(72, 8) X(100, 4) X(128, 8) X(200, 8) X(256, 8) X(257, 1) X(512, 8) X(1000, 8) \
      X(16, 16) X(32, 16) X(48, 16) X(64, 16) X(32, 32) X(64, 32) X(96, 32) X(64, 64) X(128, 64) X(256, 64) X(128, 128) X(256, 128) X(256, 256) X(512, 256) X(2048, 8)
static const int kOfTypes = 33;
static Outcome ofRun(const OfCase& c) {
  int i = 0;
#define X(S, A)                                        \
  if (c.type == i++)                                   \
    return ofRunT<Callable<S, A>>(c, "<" #S "," #A ">");
  OF_TYPES(X)
#undef X
  return Outcome();
}

int main(int argc, char** argv) {
  std::vector<std::unique_ptr<vrc::PropBase>> props;
  props.push_back(vrc::make<SvCase>(
      "C38", "model", 300000, 5000000, 80, 300, "the sequence crossed from inline to heap storage and came back below the inline capacity",
      [](bool) {
        return rc::gen::map(rc::gen::tuple(rc::gen::resize(100, rc::gen::inRange(0, kSvConfigs)), opsGen(sNumKinds)),
                            [](const std::tuple<int, std::vector<Op>>& t) { return SvCase{std::get<0>(t), std::get<1>(t)}; });
      },
      [](const SvCase& c) { return std::to_string(c.cfg) + " |" + opsText(c.ops); },
      [](const std::string& t) {
        size_t bar = t.find('|');
        return SvCase{atoi(t.c_str()), opsParse(bar == std::string::npos ? "" : t.substr(bar + 1))};
      },
      svRun));
  props.push_back(vrc::make<OrCase>(
      "C40", "model", 400000, 6000000, 60, 200, "the sequence moves from an engaged OpResult", [](bool) { return rc::gen::map(opsGen(oNumKinds), [](const std::vector<Op>& o) { return OrCase{o}; }); },
      [](const OrCase& c) { return "|" + opsText(c.ops); }, [](const std::string& t) { return OrCase{opsParse(t.substr(t.find('|') == std::string::npos ? 0 : t.find('|') + 1))}; }, orRun));
  // finite space: 33 callable types x {copy,move in} x move-chain 0..4 x {no,yes move-assign} x {invoke, cleanupNotRun}
  props.push_back(vrc::makeEnum(
      "C39", "once", "every (callable size/alignment, construction, move chain, assignment, action) combination; enumerated exhaustively",
      [](bool) -> uint64_t { return (uint64_t)kOfTypes * 2 * 5 * 2 * 2; },
      [](uint64_t idx, bool) {
        OfCase c;
        c.action = (int)(idx % 2);
        idx /= 2;
        c.assign = (int)(idx % 2);
        idx /= 2;
        c.chain = (int)(idx % 5);
        idx /= 5;
        c.ctorMode = (int)(idx % 2);
        idx /= 2;
        c.type = (int)idx;
        Outcome o = ofRun(c);
        o.nontrivial = true;
        if (o.ok)
          o.msg = "type,ctor,chain,assign,action = " + ofText(c);
        return o;
      }));
  return vrc::runMain(argc, argv, props);
}
