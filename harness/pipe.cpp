// Harness family "pipe" (E1 dsched): C27 exactly-once through every stage, C28 stage concurrency
// limits, C29 exceptions terminate cleanly without leaks.
#include <common/vf.h>
#include <dsched/dsched.h>

#include <dispenso/pipeline.h>
#include <dispenso/thread_pool.h>

#include <atomic>
#include <memory>
#include <thread>
#include <vector>

using vf::Case;
using vf::KV;
using vf::Opts;
using vf::Rng;

static void burn(int n) {
  static std::atomic<int> sink{0};
  for (int i = 0; i < n; ++i)
    sink.fetch_add(1, std::memory_order_relaxed);
}
struct Tagged {
  int stage, id;
};

constexpr int kMaxStages = 5, kMaxItems = 64;

struct World {
  Case& c;
  int nst = 0, items = 0;
  long limit[kMaxStages];   // as passed to stage(); 0 = plain function (serial)
  int filterMod[kMaxStages]; // transform k drops ids with id % mod == k (0 = never filters)
  int throwStage = -1, throwId = -1;
  int burnN = 0;
  std::atomic<int> nextId{0};
  std::atomic<int> seen[kMaxStages][kMaxItems];
  std::atomic<int> conc[kMaxStages], maxConc[kMaxStages];
  std::atomic<int> genCalls{0}, thrown{0}, firstThrownStage{-1}, firstThrownId{-1};
  std::atomic<int> stagesBusy{0}, multiStageOverlap{0}, limitReached{0};
  std::atomic<int> returned{0}, lateBody{0};
  std::atomic<int> exceptionVisible{0}, generatedAfterException{0};
  explicit World(Case& cc) : c(cc) {
    for (int s = 0; s < kMaxStages; ++s) {
      conc[s] = 0;
      maxConc[s] = 0;
      limit[s] = 1;
      filterMod[s] = 0;
      for (int i = 0; i < kMaxItems; ++i)
        seen[s][i] = 0;
    }
  }
  long effLimit(int s) const {
    return limit[s] <= 0 ? 1 : limit[s];
  }
  void enter(int s) {
    if (returned.load())
      lateBody = 1;
    int v = conc[s].fetch_add(1) + 1;
    int m = maxConc[s].load();
    while (v > m && !maxConc[s].compare_exchange_weak(m, v)) {
    }
    if (v == effLimit(s) && v >= 2)
      limitReached = 1;
    int busy = 0;
    for (int k = 0; k < nst; ++k)
      if (conc[k].load() > 0)
        ++busy;
    if (busy >= 2)
      multiStageOverlap = 1;
    burn(burnN);
  }
  void leave(int s) {
    conc[s].fetch_sub(1);
    dsched_progress();
  }
  void maybeThrow(int s, int id) {
    if (s == throwStage && id == throwId) {
      if (thrown.fetch_add(1) == 0) {
        firstThrownStage = s;
        firstThrownId = id;
      }
      conc[s].fetch_sub(1);
      throw Tagged{s, id};
    }
  }
};

#include <map>
struct Item;
// live-object registry (E1 serialises threads between schedule points, so a plain map is safe there; it is
// switched off in native runs, where it would be a data race of the harness's own)
static std::map<const Item*, std::string>& itemReg() {
  static std::map<const Item*, std::string> m;
  return m;
}
struct Item {
  static std::atomic<int> live;
  int id = -1;
  int hops = 0;            // number of stages this item has passed through
  std::unique_ptr<int> heap; // owns memory: a leaked Item is a leaked allocation
  Item() {
    live.fetch_add(1);
    if (dsched_active())
      itemReg()[this] = "default";
  }
  explicit Item(int i) : id(i), heap(new int(i)) {
    live.fetch_add(1);
    if (dsched_active())
      itemReg()[this] = "fresh id=" + std::to_string(i);
  }
  Item(Item&& o) noexcept : id(o.id), hops(o.hops), heap(std::move(o.heap)) {
    live.fetch_add(1);
    if (dsched_active())
      itemReg()[this] = "move-constructed id=" + std::to_string(id) + " hops=" + std::to_string(hops) + " on thread " + std::to_string(dsched_tid());
  }
  Item(const Item& o) : id(o.id), hops(o.hops), heap(o.heap ? new int(*o.heap) : nullptr) {
    live.fetch_add(1);
    if (dsched_active())
      itemReg()[this] = "copy-constructed id=" + std::to_string(id) + " hops=" + std::to_string(hops);
  }
  Item& operator=(Item&& o) noexcept {
    id = o.id;
    hops = o.hops;
    heap = std::move(o.heap);
    return *this;
  }
  Item& operator=(const Item& o) {
    id = o.id;
    hops = o.hops;
    heap.reset(o.heap ? new int(*o.heap) : nullptr);
    return *this;
  }
  ~Item() {
    live.fetch_sub(1);
    if (dsched_active())
      itemReg().erase(this);
  }
};
std::atomic<int> Item::live{0};

struct Gen {
  World* w;
  dispenso::OpResult<Item> operator()() {
    w->genCalls.fetch_add(1);
    w->enter(0);
    int id = w->nextId.fetch_add(1);
    if (id >= w->items) {
      w->leave(0);
      return {};
    }
    if (w->exceptionVisible.load())
      w->generatedAfterException.fetch_add(1);
    w->seen[0][id].fetch_add(1);
    w->maybeThrow(0, id);
    Item it(id);
    it.hops = 1;
    w->leave(0);
    return it;
  }
};
struct Xform { // filter-capable transform
  World* w;
  int s;
  dispenso::OpResult<Item> operator()(Item in) {
    w->enter(s);
    int id = in.id;
    if (id < 0 || id >= kMaxItems || !in.heap || *in.heap != id)
      w->c.fail("item-corrupt", "stage " + std::to_string(s) + " received a corrupt item");
    if (in.hops != s)
      w->c.fail("wrong-predecessor", "stage " + std::to_string(s) + " received item " + std::to_string(id) + " that had passed " + std::to_string(in.hops) + " stages");
    int n = w->seen[s][id].fetch_add(1) + 1;
    if (n > 1)
      w->c.fail("item-processed-twice", "stage " + std::to_string(s) + " processed item " + std::to_string(id) + " " + std::to_string(n) + " times");
    w->maybeThrow(s, id);
    bool drop = w->filterMod[s] > 0 && id % w->filterMod[s] == s % w->filterMod[s];
    in.hops = s + 1;
    w->leave(s);
    if (drop)
      return {};
    return std::move(in);
  }
};
struct XformPlain { // transform that never filters (returns the value itself)
  World* w;
  int s;
  Item operator()(Item in) {
    w->enter(s);
    int id = in.id;
    if (in.hops != s)
      w->c.fail("wrong-predecessor", "stage " + std::to_string(s) + " received item " + std::to_string(id) + " that had passed " + std::to_string(in.hops) + " stages");
    int n = w->seen[s][id].fetch_add(1) + 1;
    if (n > 1)
      w->c.fail("item-processed-twice", "stage " + std::to_string(s) + " processed item " + std::to_string(id) + " " + std::to_string(n) + " times");
    w->maybeThrow(s, id);
    in.hops = s + 1;
    w->leave(s);
    return in;
  }
};
struct Sink {
  World* w;
  int s;
  void operator()(Item in) {
    w->enter(s);
    int id = in.id;
    if (in.hops != s)
      w->c.fail("wrong-predecessor", "sink received item " + std::to_string(id) + " that had passed " + std::to_string(in.hops) + " of " + std::to_string(s) + " stages");
    int n = w->seen[s][id].fetch_add(1) + 1;
    if (n > 1)
      w->c.fail("item-processed-twice", "sink processed item " + std::to_string(id) + " " + std::to_string(n) + " times");
    w->maybeThrow(s, id);
    w->leave(s);
  }
};
struct Single { // one-stage pipeline: returns false when done
  World* w;
  bool operator()() {
    w->enter(0);
    int id = w->nextId.fetch_add(1);
    bool more = id < w->items;
    if (more) {
      w->seen[0][id].fetch_add(1);
      w->maybeThrow(0, id);
    }
    w->leave(0);
    return more;
  }
};

static void runPipeline(World& w, dispenso::ThreadPool& pool, int form) {
  using dispenso::stage;
  auto L = [&](int s) { return (dispenso::ssize_t)(w.limit[s] <= 0 ? 1 : w.limit[s]); };
  if (form == 1) { // plain function objects: every stage serial
    switch (w.nst) {
      case 1:
        dispenso::pipeline(pool, Single{&w});
        break;
      case 2:
        dispenso::pipeline(pool, Gen{&w}, Sink{&w, 1});
        break;
      case 3:
        dispenso::pipeline(pool, Gen{&w}, Xform{&w, 1}, Sink{&w, 2});
        break;
      case 4:
        dispenso::pipeline(pool, Gen{&w}, XformPlain{&w, 1}, Xform{&w, 2}, Sink{&w, 3});
        break;
      default:
        dispenso::pipeline(pool, Gen{&w}, Xform{&w, 1}, XformPlain{&w, 2}, Xform{&w, 3}, Sink{&w, 4});
        break;
    }
    return;
  }
  switch (w.nst) {
    case 1:
      dispenso::pipeline(pool, stage(Single{&w}, L(0)));
      break;
    case 2:
      dispenso::pipeline(pool, stage(Gen{&w}, L(0)), stage(Sink{&w, 1}, L(1)));
      break;
    case 3:
      dispenso::pipeline(pool, stage(Gen{&w}, L(0)), stage(Xform{&w, 1}, L(1)), stage(Sink{&w, 2}, L(2)));
      break;
    case 4:
      dispenso::pipeline(pool, stage(Gen{&w}, L(0)), stage(Xform{&w, 1}, L(1)), stage(XformPlain{&w, 2}, L(2)), stage(Sink{&w, 3}, L(3)));
      break;
    default:
      dispenso::pipeline(pool, stage(Gen{&w}, L(0)), stage(XformPlain{&w, 1}, L(1)), stage(Xform{&w, 2}, L(2)), stage(Xform{&w, 3}, L(3)), stage(Sink{&w, 4}, L(4)));
      break;
  }
}

static void genCommon(Rng& r, KV& kv, bool faults) {
  long n = r.range(0, 3);
  kv.set("n", n);
  long nst = r.range(1, 5);
  if (faults && nst == 1 && r.chance(2, 3))
    nst = r.range(2, 5);
  kv.set("nst", nst);
  kv.set("items", r.pick<long>({0, 1, 2, 3, 5, 8, 12}));
  kv.set("form", r.chance(1, 4) ? 1L : 0L);
  for (long s = 0; s < nst; ++s) {
    kv.set("lim" + std::to_string(s), r.pick<long>({1, 1, 2, 3, n + 1, 9223372036854775807L}));
    kv.set("fm" + std::to_string(s), r.pick<long>({0, 0, 2, 3}));
  }
  kv.set("burn", r.range(0, 10));
  kv.set("ts", -1L);
  kv.set("ti", -1L);
  kv.setu("mp", 1500000);
  kv.setu("fp", 600000);
}
static void genFocus(Rng& r, KV& kv, bool always) {
  // focus class: an unlimited stage feeding a limited one, few items - the hand-off between a
  // stage's completion callback and a concurrent schedule() of the last item
  if (always || r.chance(1, 3)) {
    long nst = r.range(3, 4);
    kv.set("nst", nst);
    kv.set("form", 0L);
    kv.set("n", r.range(2, 3));
    kv.set("items", r.range(1, 4));
    kv.set("lim0", r.pick<long>({1, 1, 2}));
    for (long s = 1; s < nst - 1; ++s)
      kv.set("lim" + std::to_string(s), r.chance(2, 3) ? 9223372036854775807L : 1L);
    kv.set("lim" + std::to_string(nst - 1), r.pick<long>({1, 1, 2}));
    for (long s = 0; s < nst; ++s)
      kv.set("fm" + std::to_string(s), 0L);
    kv.set("burn", r.range(0, 6));
  }
}
static void genC27(Rng& r, KV& kv, const Opts&) {
  genCommon(r, kv, false);
  genFocus(r, kv, false);
}
static void genC27h(Rng& r, KV& kv, const Opts&) {
  genCommon(r, kv, false);
  genFocus(r, kv, true);
}
// C28: shapes in which limits bind: several pool threads, more items than the limit, longer bodies
static void genC28(Rng& r, KV& kv, const Opts&) {
  genCommon(r, kv, false);
  if (r.chance(2, 3)) {
    long n = r.range(2, 3);
    kv.set("n", n);
    long nst = std::max<long>(2, kv.i("nst"));
    kv.set("nst", nst);
    kv.set("items", r.range(6, 14));
    kv.set("form", 0L);
    for (long s = 0; s < nst; ++s) {
      kv.set("lim" + std::to_string(s), r.pick<long>({1, 2, 2, 3, 3}));
      kv.set("fm" + std::to_string(s), 0L);
    }
    kv.set("burn", r.range(6, 25));
  }
}
// C29: fault enumeration axis: throwing stage (every stage incl. generator and sink) x position
// (first / middle / last item, plus random)
static void genC29(Rng& r, KV& kv, const Opts&) {
  genCommon(r, kv, true);
  long nst = kv.i("nst"), items = kv.i("items");
  if (items == 0) {
    items = r.range(1, 8);
    kv.set("items", items);
  }
  kv.set("ts", r.range(0, nst - 1));
  long pos = r.range(0, 3);
  kv.set("ti", pos == 0 ? 0 : pos == 1 ? items / 2 : pos == 2 ? items - 1 : r.range(0, items - 1));
  for (long s = 0; s < nst; ++s)
    if (r.chance(2, 3))
      kv.set("fm" + std::to_string(s), 0L); // mostly no filtering, so the throwing (stage,item) is actually reached
}

static void runPipe(Case& c, bool faults) {
  auto wp = std::make_unique<World>(c);
  World& w = *wp;
  long n = c.p.i("n");
  w.nst = (int)c.p.i("nst");
  w.items = (int)c.p.i("items");
  w.burnN = (int)c.p.i("burn");
  int form = (int)c.p.i("form");
  for (int s = 0; s < w.nst; ++s) {
    w.limit[s] = form == 1 ? 0 : c.p.i("lim" + std::to_string(s));
    w.filterMod[s] = (int)c.p.i("fm" + std::to_string(s));
  }
  if (w.nst >= 1)
    w.filterMod[0] = 0;
  // which transform positions are filter-capable (Xform) and which return the plain value (XformPlain): see runPipeline
  {
    static const int plainAt[2][6] = {/*form 0*/ {-1, -1, -1, -1, 2, 1}, /*form 1*/ {-1, -1, -1, -1, 1, 2}};
    int ps = plainAt[form][w.nst];
    if (ps >= 0)
      w.filterMod[ps] = 0;
    w.filterMod[w.nst - 1] = 0; // the sink never filters
  }
  w.throwStage = (int)c.p.i("ts");
  w.throwId = (int)c.p.i("ti");
  Item::live = 0;
  bool threw = false;
  Tagged got{-1, -1};
  {
    dispenso::ThreadPool pool((size_t)n);
    try {
      runPipeline(w, pool, form);
    } catch (const Tagged& t) {
      threw = true;
      got = t;
    }
    w.returned = 1;
    // ---- oracles at return ----
    for (int s = 0; s < w.nst; ++s)
      VF_CHECK(c, w.conc[s].load() == 0, "body-running-after-return", "pipeline() returned while an invocation of stage %d was still running", s);
    for (int s = 0; s < w.nst; ++s)
      VF_CHECK(c, w.maxConc[s].load() <= w.effLimit(s), "stage-limit-exceeded", "stage %d ran %d concurrent invocations, its limit is %ld%s", s, w.maxConc[s].load(),
               w.effLimit(s), w.limit[s] <= 0 ? " (plain function: serial)" : "");
    if (!faults || w.thrown.load() == 0) {
      VF_CHECK(c, !threw, "phantom-exception", "pipeline() threw although no stage threw");
      for (int id = 0; id < w.items; ++id) {
        bool alive = true;
        for (int s = 0; s < w.nst; ++s) {
          int want = alive ? 1 : 0;
          int have = w.seen[s][id].load();
          if (have != want)
            c.fail(have < want ? "item-lost" : "item-processed-twice", "item " + std::to_string(id) + " was seen " + std::to_string(have) + " times by stage " + std::to_string(s) +
                                                                           ", expected " + std::to_string(want) + " (" + std::to_string(w.nst) + " stages, " +
                                                                           std::to_string(w.items) + " items)");
          if (alive && s > 0 && s < w.nst - 1 && w.filterMod[s] > 0 && id % w.filterMod[s] == s % w.filterMod[s])
            alive = false;
        }
      }
    } else {
      VF_CHECK(c, threw, "exception-swallowed", "a stage threw but pipeline() returned normally");
      VF_CHECK(c, got.stage == w.throwStage && got.id == w.throwId, "phantom-exception", "pipeline() rethrew an exception no stage threw");
      for (int s = 0; s < w.nst; ++s)
        for (int id = 0; id < w.items; ++id)
          VF_CHECK(c, w.seen[s][id].load() <= 1, "item-processed-twice", "stage %d processed item %d twice on the exception path", s, id);
    }
    // the pool stays usable
    if (faults) {
      std::atomic<int> ran{0};
      dispenso::TaskSet ts(pool);
      for (int i = 0; i < 3; ++i)
        ts.schedule([&]() { ran.fetch_add(1); });
      ts.wait();
      VF_CHECK(c, ran.load() == 3, "pool-unusable", "the pool did not run a plain task set after the pipeline threw");
      World w2(c);
      w2.nst = 2;
      w2.items = 3;
      w2.limit[0] = 1;
      w2.limit[1] = 2;
      runPipeline(w2, pool, 0);
      for (int id = 0; id < 3; ++id)
        VF_CHECK(c, w2.seen[1][id].load() == 1, "pool-unusable", "a fresh pipeline on the same pool lost item %d", id);
    }
    c.phase = "pool-dtor";
  }
  // Leak oracle, after the pool's threads have been joined: a worker may still be destroying the
  // (moved-from) captures of a finished stage task when pipeline() returns - that is not a leak.
  if (Item::live.load() != 0) {
    std::string desc;
    for (auto& kv : itemReg())
      desc += " [" + kv.second + (kv.first->heap ? " owning" : " moved-from") + "]";
    c.fail("items-leaked", std::to_string(Item::live.load()) + " item object(s) the pipeline held were never destroyed (pipeline() " + (threw ? "threw" : "returned") +
                               ", pool destroyed):" + desc);
  }
  VF_CHECK(c, !w.lateBody.load(), "late-body", "a stage body started after pipeline() had returned");
  if (w.multiStageOverlap.load())
    c.cls("items_in_flight_in_>=2_stages");
  if (w.limitReached.load())
    c.cls("a_stage_reached_its_limit(>=2)");
  if (w.thrown.load())
    c.cls("a_stage_threw");
  if (form == 1)
    c.cls("plain_function_stages");
  c.cls("stages:" + std::to_string(w.nst));
  c.sample = "maxConc=" + std::to_string(w.maxConc[0].load()) + "/" + std::to_string(w.nst > 1 ? w.maxConc[1].load() : 0);
}
static void runC27(Case& c) {
  runPipe(c, false);
  c.nontrivial = c.classes.count("items_in_flight_in_>=2_stages") > 0;
}
static void runC28(Case& c) {
  runPipe(c, false);
  c.nontrivial = c.classes.count("items_in_flight_in_>=2_stages") > 0 && c.classes.count("a_stage_reached_its_limit(>=2)") > 0;
}
static void runC29(Case& c) {
  runPipe(c, true);
  c.nontrivial = c.classes.count("a_stage_threw") > 0 && c.classes.count("items_in_flight_in_>=2_stages") > 0;
}

static const vf::Prop kProps[] = {
    {"C27", "pipe", genC27, runC27, vf::kE1, 4000, 120000, "at least two items were in flight in different stages at the same time"},
    {"C27", "handoff", genC27h, runC27, vf::kE1, 8000, 200000, "at least two items were in flight in different stages at the same time"},
    {"C28", "pipe", genC28, runC28, vf::kE1, 2500, 80000, "items were in flight in two stages at once and some stage with limit >= 2 reached its limit"},
    {"C29", "fault", genC29, runC29, vf::kE1, 2500, 60000, "a stage threw while items were in flight in at least two stages"},
};

int main(int argc, char** argv) {
  return vf::runMain(argc, argv, kProps, (int)(sizeof kProps / sizeof kProps[0]));
}
