// included by loops.cpp: C12 exhaustive 8-bit sweep, C15 for_each, C16 parallel_invoke
#pragma once

namespace {

// ---------------------------------------------------------------------------------------------
// C12 exhaustive: case index -> (type, start, end) over all pairs start<=end of both 8-bit types
// (2 * 32896 = 65792 cases); configuration (pool, chunking, options) derived from the seed.
void runC12x(Case& c) {
  uint64_t idx = c.index;
  if (c.replayMode && c.p.has("ty")) {
    dispatch(c, OR_PART);
    c.nontrivial = true;
    return;
  }
  long ty = idx < 32896 ? 0 : 1;
  uint64_t k = idx % 32896;
  // enumerate pairs (a,b) with 0<=a<=b<=255: row a has (256-a) entries
  long a = 0;
  while (k >= (uint64_t)(256 - a)) {
    k -= (uint64_t)(256 - a);
    ++a;
  }
  long b = a + (long)k;
  i128 lo = ty == 0 ? -128 : 0;
  uint64_t seed = c.p.u("seed0", 1);
  Rng r(seed * 1315423911ull + idx);
  c.p.set("ty", ty);
  c.p.set("s", s128(lo + a));
  c.p.set("e", s128(lo + b));
  c.p.set("n", r.range(0, 3));
  long chunking = r.range(0, 2);
  c.p.set("chunking", chunking);
  c.p.set("form", r.range(0, 1));
  if (chunking == 2) {
    long chunk = r.range(1, 60);
    if (ty == 0 && chunk >= 127)
      chunk = 126;
    c.p.set("chunk", chunk);
  }
  c.p.set("maxT", r.chance(1, 2) ? 0x7fffffffL : r.range(0, 4));
  c.p.set("wait", r.chance(2, 3) ? 1L : 0L);
  c.p.set("minItems", r.pick<long>({1, 1, 2, 7}));
  c.p.set("gran", r.pick<long>({1, 1, 2, 3, 8}));
  c.p.set("state", r.pick<long>({0, 0, 1}));
  c.p.set("burn", 0L);
  dispatch(c, OR_PART);
  c.nontrivial = true; // each enumerated pair is a distinct point of the finite space
  if (a == 0 || b == 255)
    c.cls("range_touches_type_limit");
}

// ---------------------------------------------------------------------------------------------
// C15 for_each / for_each_n
void genC15(Rng& r, KV& kv, bool e1) {
  long n = r.range(0, e1 ? 3 : 4);
  kv.set("n", n);
  kv.set("cat", r.range(0, 2)); // 0 vector (random access) 1 list (bidirectional) 2 forward_list
  long cnt;
  long sc = r.range(0, 9);
  if (sc == 0)
    cnt = 0;
  else if (sc == 1)
    cnt = 1;
  else if (sc < 7)
    cnt = r.range(2, 3 * n + 2);
  else
    cnt = r.range(2, e1 ? 40 : 1000);
  kv.set("cnt", cnt);
  kv.set("extra", r.range(0, 3)); // elements beyond n that must not be touched (for_each_n)
  kv.set("maxT", r.pick<long>({0, 1, 2, n, n + 1, 0x7fffffff, 0x7fffffff}));
  kv.set("wait", r.chance(1, 2) ? 1L : 0L);
  kv.set("api", r.range(0, 1)); // 0 for_each 1 for_each_n
  kv.set("cts", r.chance(1, 3) ? 1L : 0L);
  kv.set("nest", r.pick<long>({0, 0, 1}));
  kv.set("burn", e1 ? r.range(0, 4) : r.pick<long>({0, 10, 200}));
  if (e1) {
    kv.setu("mp", 1500000);
    kv.setu("fp", 500000);
  }
}
void genC15n(Rng& r, KV& kv, const Opts&) {
  genC15(r, kv, false);
}
void genC15e(Rng& r, KV& kv, const Opts&) {
  genC15(r, kv, true);
}

struct Elem {
  std::atomic<int> hits{0};
  Elem() {}
  Elem(const Elem& o) : hits(o.hits.load()) {}
};

template <typename Cont, typename TS>
void runForEachT(Case& c, dispenso::ThreadPool& pool, Cont& cont, long cnt, long total, Log& log) {
  dispenso::ForEachOptions o;
  o.maxThreads = (uint32_t)c.p.u("maxT");
  o.wait = c.p.i("wait") != 0;
  Shared sh{&log, nullptr, (int)c.p.i("burn")};
  auto body = [&sh](Elem& e) {
    enterBody(sh);
    e.hits.fetch_add(1);
    leaveBody(sh);
  };
  {
    TS ts(pool);
    if (c.p.i("api") == 0) {
      auto endIt = cont.begin();
      std::advance(endIt, cnt);
      dispenso::for_each(ts, cont.begin(), endIt, body, o);
    } else {
      dispenso::for_each_n(ts, cont.begin(), (size_t)cnt, body, o);
    }
    if (!o.wait)
      ts.wait();
    if (log.inBody.load() != 0)
      c.fail("body-running-after-return", "a for_each application was still running after the call / taskSet.wait() returned");
  }
  long i = 0;
  for (auto& e : cont) {
    int h = e.hits.load();
    if (i < cnt && h != 1)
      c.fail(h == 0 ? "element-skipped" : "element-visited-twice", "element " + std::to_string(i) + " of " + std::to_string(cnt) + " visited " + std::to_string(h) + " times");
    if (i >= cnt && h != 0)
      c.fail("element-beyond-n-visited", "element " + std::to_string(i) + " (beyond n=" + std::to_string(cnt) + ") visited");
    ++i;
  }
  (void)total;
  int lim = (int)std::max<uint32_t>(1, o.maxThreads > 1000000 ? 1000000 : o.maxThreads);
  if (c.p.i("checkMaxT", 0) && log.maxInBody.load() > lim)
    c.fail("maxThreads-exceeded", std::to_string(log.maxInBody.load()) + " concurrent applications with maxThreads=" + std::to_string(o.maxThreads));
  if (c.p.i("checkMaxT", 0) && o.maxThreads <= 1 && __builtin_popcount(log.threads.load()) > 1)
    c.fail("maxThreads-serial-multi-thread", "maxThreads<=1 but applications ran on " + std::to_string(__builtin_popcount(log.threads.load())) + " threads");
}

void runC15(Case& c) {
  long n = c.p.i("n"), cnt = c.p.i("cnt"), extra = c.p.i("extra"), cat = c.p.i("cat");
  long total = cnt + (c.p.i("api") == 1 ? extra : 0);
  auto logp = std::make_unique<Log>();
  Log& log = *logp;
  {
    dispenso::ThreadPool pool((size_t)n);
    auto go = [&]() {
      bool cts = c.p.i("cts") != 0;
      if (cat == 0) {
        std::vector<Elem> v((size_t)total);
        cts ? runForEachT<std::vector<Elem>, dispenso::ConcurrentTaskSet>(c, pool, v, cnt, total, log)
            : runForEachT<std::vector<Elem>, dispenso::TaskSet>(c, pool, v, cnt, total, log);
      } else if (cat == 1) {
        std::list<Elem> v((size_t)total);
        cts ? runForEachT<std::list<Elem>, dispenso::ConcurrentTaskSet>(c, pool, v, cnt, total, log)
            : runForEachT<std::list<Elem>, dispenso::TaskSet>(c, pool, v, cnt, total, log);
      } else {
        std::forward_list<Elem> v((size_t)total);
        cts ? runForEachT<std::forward_list<Elem>, dispenso::ConcurrentTaskSet>(c, pool, v, cnt, total, log)
            : runForEachT<std::forward_list<Elem>, dispenso::TaskSet>(c, pool, v, cnt, total, log);
      }
    };
    if (c.p.i("nest") == 0)
      go();
    else {
      dispenso::TaskSet outer(pool);
      outer.schedule(go, dispenso::ForceQueuingTag());
      outer.wait();
    }
  }
  unsigned th = log.threads.load();
  bool multi = cnt >= 2 && __builtin_popcount(th) >= 2;
  long maxT = c.p.i("maxT");
  c.sample = "threads=" + std::to_string(__builtin_popcount(th)) + " maxConc=" + std::to_string(log.maxInBody.load()) + " ";
  if (log.maxInBody.load() >= 2)
    c.cls("bodies_overlapped");
  c.nontrivial = multi || n == 0 || maxT <= 1;
  if (multi)
    c.cls("applied_on>=2_threads");
  if (n == 0)
    c.cls("zero_thread_pool");
  if (maxT <= 1)
    c.cls("maxThreads<=1");
}

// C48 for for_each: same programs, maxThreads in 0..n+1, concurrency monitor armed
void genC48fe(Rng& r, KV& kv, bool e1) {
  genC15(r, kv, e1);
  kv.set("maxT", r.range(0, kv.i("n") + 1));
  kv.set("checkMaxT", 1L);
  kv.set("burn", e1 ? r.range(2, 8) : r.pick<long>({50, 400, 2000}));
  if (kv.i("cnt") < 4)
    kv.set("cnt", r.range(4, e1 ? 24 : 300));
}
void genC48fen(Rng& r, KV& kv, const Opts&) {
  genC48fe(r, kv, false);
}
void genC48fee(Rng& r, KV& kv, const Opts&) {
  genC48fe(r, kv, true);
}
void runC48fe(Case& c) {
  runC15(c);
  c.nontrivial = c.sample.find("maxConc=1 ") == std::string::npos || c.p.i("maxT") <= 1;
}

// ---------------------------------------------------------------------------------------------
// C16 parallel_invoke: divide-and-conquer trees of arity 1..8
void genC16(Rng& r, KV& kv, bool e1) {
  kv.set("n", r.range(0, e1 ? 3 : 4));
  kv.set("depth", r.range(1, e1 ? 4 : 9));
  kv.set("arity", r.range(1, 8));
  kv.set("shape", r.range(0, 2)); // 0 balanced 1 left-heavy 2 right-heavy (only one child recurses)
  kv.set("mult", r.pick<long>({1, 2, 4, 4}));
  kv.set("cost", r.range(0, 1));
  kv.set("burn", e1 ? r.range(0, 3) : r.pick<long>({0, 20}));
  if (r.chance(1, 4)) {
    // deep one-sided recursion: one functor per call recurses, far beyond the library's inline-depth
    // cap (32), on a small, easily overloaded pool
    kv.set("shape", r.range(1, 2));
    kv.set("depth", r.range(30, e1 ? 50 : 90));
    kv.set("arity", r.range(2, 4));
    kv.set("n", r.range(1, 3));
    kv.set("mult", r.pick<long>({1, 1, 2, 4}));
  }
  if (e1) {
    kv.setu("mp", 2000000);
    kv.setu("fp", 600000);
  }
}
void genC16n(Rng& r, KV& kv, const Opts&) {
  genC16(r, kv, false);
}
void genC16e(Rng& r, KV& kv, const Opts&) {
  genC16(r, kv, true);
}

struct InvokeWorld {
  Case& c;
  dispenso::ConcurrentTaskSet& ts;
  std::vector<std::atomic<int>> leafRuns;
  std::atomic<int> nextLeaf{0};
  std::atomic<unsigned> threads{0};
  std::atomic<int> lastNotOnCaller{0}, lastAfterReturn{0};
  std::atomic<int> nodes{0};
  long arity, shape, burn;
  int budget;
  InvokeWorld(Case& cc, dispenso::ConcurrentTaskSet& t) : c(cc), ts(t), leafRuns(70000) {}
};

void invokeNode(InvokeWorld& w, int depth, int path);

struct NodeFn {
  InvokeWorld* w;
  int depth, idx;
  std::atomic<int>* lastRan; // set by the last functor
  int callerTid;
  bool isLast;
  void operator()() const {
    if (isLast) {
      if (myTid() != callerTid)
        w->lastNotOnCaller.fetch_add(1);
      lastRan->store(1);
    }
    w->threads.fetch_or(1u << (myTid() & 31));
    static std::atomic<int> sink{0};
    for (long i = 0; i < w->burn; ++i)
      sink.fetch_add(1, std::memory_order_relaxed);
    bool recurse = depth > 0;
    if (recurse && w->shape == 1 && idx != 0)
      recurse = false;
    if (recurse && w->shape == 2 && !isLast)
      recurse = false;
    if (recurse && w->nodes.load() > w->budget)
      recurse = false;
    if (recurse)
      invokeNode(*w, depth - 1, idx);
    else {
      int leaf = w->nextLeaf.fetch_add(1);
      if (leaf < (int)w->leafRuns.size())
        w->leafRuns[(size_t)leaf].fetch_add(1);
    }
    progress();
  }
};

void invokeNode(InvokeWorld& w, int depth, int) {
  w.nodes.fetch_add(1);
  std::atomic<int> lastRan{0};
  int me = myTid();
  auto mk = [&](int i, bool last) { return NodeFn{&w, depth, i, &lastRan, me, last}; };
  switch (w.arity) {
    case 1:
      dispenso::parallel_invoke(w.ts, mk(0, true));
      break;
    case 2:
      dispenso::parallel_invoke(w.ts, mk(0, false), mk(1, true));
      break;
    case 3:
      dispenso::parallel_invoke(w.ts, mk(0, false), mk(1, false), mk(2, true));
      break;
    case 4:
      dispenso::parallel_invoke(w.ts, mk(0, false), mk(1, false), mk(2, false), mk(3, true));
      break;
    case 5:
      dispenso::parallel_invoke(w.ts, mk(0, false), mk(1, false), mk(2, false), mk(3, false), mk(4, true));
      break;
    case 6:
      dispenso::parallel_invoke(w.ts, mk(0, false), mk(1, false), mk(2, false), mk(3, false), mk(4, false), mk(5, true));
      break;
    case 7:
      dispenso::parallel_invoke(w.ts, mk(0, false), mk(1, false), mk(2, false), mk(3, false), mk(4, false), mk(5, false), mk(6, true));
      break;
    default:
      dispenso::parallel_invoke(w.ts, mk(0, false), mk(1, false), mk(2, false), mk(3, false), mk(4, false), mk(5, false), mk(6, false), mk(7, true));
      break;
  }
  // the last functor must have run, on this thread, before parallel_invoke returned
  if (!lastRan.load())
    w.lastAfterReturn.fetch_add(1);
}

// Each functor object identifies one logical functor; count invocations per functor through a
// per-node slot array instead of per leaf: cheap exactly-once ledger = total functor invocations.
void runC16(Case& c) {
  long n = c.p.i("n"), depth = c.p.i("depth");
  std::atomic<long> dummy{0};
  long leaves = 0, nodes = 0;
  unsigned threads = 0;
  {
    dispenso::ThreadPool pool((size_t)n);
    dispenso::ConcurrentTaskSet ts(pool, c.p.i("cost") ? dispenso::TaskCost::kHeavy : dispenso::TaskCost::kLightweight, (ssize_t)c.p.i("mult", 4));
    auto w = std::make_unique<InvokeWorld>(c, ts);
    w->arity = c.p.i("arity");
    w->shape = c.p.i("shape");
    w->burn = c.p.i("burn");
    w->budget = underE1() ? 120 : 3000;
    invokeNode(*w, (int)depth, 0);
    ts.wait();
    leaves = w->nextLeaf.load();
    nodes = w->nodes.load();
    threads = w->threads.load();
    if (w->lastNotOnCaller.load())
      c.fail("last-functor-not-on-caller", std::to_string(w->lastNotOnCaller.load()) + " call(s) ran their last functor on a thread other than the caller");
    if (w->lastAfterReturn.load())
      c.fail("last-functor-not-run-before-return", "parallel_invoke returned before its last functor had run");
    for (long i = 0; i < leaves && i < (long)w->leafRuns.size(); ++i)
      if (w->leafRuns[(size_t)i].load() != 1)
        c.fail("leaf-ledger", "leaf slot " + std::to_string(i) + " hit " + std::to_string(w->leafRuns[(size_t)i].load()) + " times");
    // every internal node spawns `arity` functors; each functor is either a leaf or one node:
    // functors = arity * nodes = leaves + (nodes - 1)  (all ran exactly once iff the counts agree)
    long functors = w->arity * nodes;
    if (functors != leaves + (nodes - 1))
      c.fail("functor-count", "functor invocations after wait(): expected " + std::to_string(functors) + " = leaves " + std::to_string(leaves) + " + inner nodes " +
                                  std::to_string(nodes - 1));
  }
  c.nontrivial = depth >= 3 && __builtin_popcount(threads) >= 2;
  if (__builtin_popcount(threads) >= 2)
    c.cls(">=2_threads");
  c.cls("nodes", nodes);
  (void)dummy;
}

} // namespace
