// Harness family "conc" (E1 dsched): concurrent containers and allocators.
//  C33 ConcurrentVector concurrent growth    C34 MpmcRingBuffer   C35 SPSCRingBuffer
//  C36 ChaseLevDeque   C37 ConcurrentObjectArena   C41 SmallBufferAllocator   C42 PoolAllocator
#include <common/vf.h>
#include <dsched/dsched.h>

#include <dispenso/chase_lev_deque.h>
#include <dispenso/concurrent_object_arena.h>
#include <dispenso/concurrent_vector.h>
#include <dispenso/mpmc_ring_buffer.h>
#include <dispenso/pool_allocator.h>
#include <dispenso/small_buffer_allocator.h>
#include <dispenso/spsc_ring_buffer.h>

#include <algorithm>
#include <array>
#include <atomic>
#include <map>
#include <memory>
#include <set>
#include <thread>
#include <vector>

using vf::Case;
using vf::KV;
using vf::Opts;
using vf::Rng;

extern "C" {
int dsched_active(void) __attribute__((weak));
void dsched_progress(void) __attribute__((weak));
}
static bool underE1() {
  return dsched_active && dsched_active();
}
static void progress() {
  if (underE1())
    dsched_progress();
}
static std::vector<std::string> splitOps(const std::string& s, char sep = ',') {
  std::vector<std::string> out;
  size_t i = 0;
  while (i < s.size()) {
    size_t j = s.find(sep, i);
    if (j == std::string::npos)
      j = s.size();
    if (j > i)
      out.push_back(s.substr(i, j - i));
    i = j + 1;
  }
  return out;
}
static void burn(int n) {
  static std::atomic<int> sink{0};
  for (int i = 0; i < n; ++i)
    sink.fetch_add(1, std::memory_order_relaxed);
}
template <typename T>
struct Aligned { // heap holder honouring over-alignment in C++14
  T* p;
  Aligned() {
    void* mem = nullptr;
    if (posix_memalign(&mem, alignof(T) < sizeof(void*) ? sizeof(void*) : alignof(T), sizeof(T)) != 0)
      abort();
    p = new (mem) T();
  }
  ~Aligned() {
    p->~T();
    free(p);
  }
  T& operator*() {
    return *p;
  }
  T* operator->() {
    return p;
  }
};

// tagged, heap-owning element; live counter = constructed - destroyed
struct Elem {
  static std::atomic<int> live;
  int tag = -1;
  std::unique_ptr<int> heap;
  Elem() {
    live.fetch_add(1);
  }
  explicit Elem(int t) : tag(t), heap(new int(t)) {
    live.fetch_add(1);
  }
  Elem(Elem&& o) noexcept : tag(o.tag), heap(std::move(o.heap)) {
    live.fetch_add(1);
  }
  Elem(const Elem& o) : tag(o.tag), heap(o.heap ? new int(*o.heap) : nullptr) {
    live.fetch_add(1);
  }
  Elem& operator=(Elem&& o) noexcept {
    tag = o.tag;
    heap = std::move(o.heap);
    return *this;
  }
  Elem& operator=(const Elem& o) {
    tag = o.tag;
    heap.reset(o.heap ? new int(*o.heap) : nullptr);
    return *this;
  }
  ~Elem() {
    live.fetch_sub(1);
  }
  bool intact() const {
    return heap && *heap == tag;
  }
};
std::atomic<int> Elem::live{0};

// real-time stamps for order oracles
struct Stamps {
  std::atomic<long> clock{1};
  std::atomic<long> pushStart[512], pushEnd[512], popStart[512], popEnd[512];
  std::atomic<int> popped[512];
  Stamps() {
    for (int i = 0; i < 512; ++i) {
      pushStart[i] = pushEnd[i] = popStart[i] = popEnd[i] = 0;
      popped[i] = 0;
    }
  }
  long now() {
    return clock.fetch_add(1);
  }
};

// ------------------------------------------------------------------------------------------------
// C34 MPMC ring
static void genC34(Rng& r, KV& kv, const Opts&) {
  kv.set("cap", r.range(0, 5)); // index into the capacity table
  long T = r.range(2, 4);
  kv.set("T", T);
  for (long t = 0; t < T; ++t) {
    std::string s;
    long n = r.range(1, 8);
    for (long i = 0; i < n; ++i)
      s += r.pick<const char*>({"p", "p", "e", "b2", "b3", "o", "o", "O", "i"}), s += ",";
    kv.set("ops" + std::to_string(t), s);
  }
  kv.set("burn", r.range(0, 4));
  kv.setu("mp", 400000);
  kv.setu("fp", 300000);
}
template <typename Ring>
static void runC34T(Case& c) {
  long T = c.p.i("T");
  int b = (int)c.p.i("burn");
  Elem::live = 0;
  auto stp = std::make_unique<Stamps>();
  Stamps& st = *stp;
  std::atomic<int> nextTag{0};
  std::atomic<int> pushesDone{0}, popsDone{0}, popsInFlight{0};
  std::atomic<int> oppositeOverlap{0}, pushesOpen{0}, popsOpen{0}, wrapped{0};
  const int cap = (int)Ring::capacity();
  {
    Aligned<Ring> ringHolder;
    Ring& ring = *ringHolder;
    auto notePush = [&](int tag, long s0) {
      st.pushStart[tag] = s0;
      st.pushEnd[tag] = st.now();
      int done = pushesDone.fetch_add(1) + 1;
      if (done > cap)
        wrapped = 1;
      // in-flight pops are read BEFORE finished ones: a pop that completes between the two reads is then counted twice
      // (bound too low, harmless) instead of not at all (bound too high: a false alarm)
      int inFlight = popsInFlight.load();
      int lower = done - popsDone.load() - inFlight;
      VF_CHECK(c, lower <= cap, "over-capacity", "at least %d elements are in the ring, capacity() is %d", lower, cap);
    };
    auto notePop = [&](const Elem& e, long s0) {
      int tag = e.tag;
      VF_CHECK(c, tag >= 0 && tag < 512 && e.intact(), "phantom-element", "pop returned an element that was never pushed or is corrupt (tag %d)", tag);
      VF_CHECK(c, st.pushStart[tag].load() != 0, "phantom-element", "pop returned tag %d whose push had not started", tag);
      int n = st.popped[tag].fetch_add(1) + 1;
      VF_CHECK(c, n == 1, "element-popped-twice", "element %d was returned by %d pops", tag, n);
      st.popStart[tag] = s0;
      st.popEnd[tag] = st.now();
    };
    std::vector<std::thread> th;
    for (long t = 0; t < T; ++t) {
      auto ops = splitOps(c.p.s("ops" + std::to_string(t)));
      th.emplace_back([&, ops]() {
        for (auto& op : ops) {
          burn(b);
          if (op[0] == 'p' || op[0] == 'e') {
            int tag = nextTag.fetch_add(1);
            if (popsOpen.load() > 0)
              oppositeOverlap = 1;
            pushesOpen.fetch_add(1);
            long s0 = st.now();
            st.pushStart[tag] = s0;
            bool ok = op[0] == 'p' ? ring.try_push(Elem(tag)) : ring.try_emplace(Elem(tag));
            pushesOpen.fetch_sub(1);
            if (ok)
              notePush(tag, s0);
            else
              st.pushStart[tag] = 0;
          } else if (op[0] == 'b') {
            int k = op[1] - '0';
            Elem items[3] = {Elem(nextTag.fetch_add(1)), Elem(nextTag.fetch_add(1)), Elem(k >= 3 ? nextTag.fetch_add(1) : -2)};
            long s0 = st.now();
            for (int i = 0; i < k; ++i)
              st.pushStart[items[i].tag] = s0;
            pushesOpen.fetch_add(1);
            size_t n = ring.try_push_batch(items, (size_t)k);
            pushesOpen.fetch_sub(1);
            VF_CHECK(c, n <= (size_t)k, "batch-count", "try_push_batch returned %zu for %d items", n, k);
            for (int i = 0; i < k; ++i) {
              int tag = i == 0 ? items[0].tag : i == 1 ? items[1].tag : items[2].tag;
              if ((size_t)i < n)
                notePush(tag, s0);
              else
                st.pushStart[tag] = 0;
            }
          } else {
            if (pushesOpen.load() > 0)
              oppositeOverlap = 1;
            popsOpen.fetch_add(1);
            popsInFlight.fetch_add(1);
            long s0 = st.now();
            if (op[0] == 'o') {
              Elem out;
              bool ok = ring.try_pop(out);
              if (ok)
                popsDone.fetch_add(1); // counted as done before it leaves the in-flight set: the occupancy bound stays a lower bound
              popsInFlight.fetch_sub(1);
              if (ok)
                notePop(out, s0);
            } else if (op[0] == 'O') {
              auto res = ring.try_pop();
              if (res)
                popsDone.fetch_add(1);
              popsInFlight.fetch_sub(1);
              if (res)
                notePop(res.value(), s0);
            } else {
              alignas(Elem) char buf[sizeof(Elem)];
              bool ok = ring.try_pop_into(reinterpret_cast<Elem*>(buf));
              if (ok)
                popsDone.fetch_add(1);
              popsInFlight.fetch_sub(1);
              if (ok) {
                Elem* e = reinterpret_cast<Elem*>(buf);
                notePop(*e, s0);
                e->~Elem();
              }
            }
            popsOpen.fetch_sub(1);
          }
          progress();
        }
      });
    }
    for (auto& t : th)
      t.join();
    // FIFO (real-time consequence): a pushed completely before b, yet b's pop returned before a's pop even started
    int total = nextTag.load();
    for (int a = 0; a < total; ++a)
      for (int d = 0; d < total; ++d) {
        if (a == d || !st.pushEnd[a].load() || !st.pushEnd[d].load())
          continue;
        if (st.pushEnd[a].load() < st.pushStart[d].load() && st.popped[d].load() && st.popped[a].load() && st.popEnd[d].load() < st.popStart[a].load())
          c.fail("fifo-order", "element " + std::to_string(a) + " was pushed entirely before element " + std::to_string(d) + " but popped entirely after it");
        if (st.pushEnd[a].load() < st.pushStart[d].load() && st.popped[d].load() && !st.popped[a].load())
          c.fail("fifo-order", "element " + std::to_string(d) + " was popped while element " + std::to_string(a) + ", pushed entirely before it, is still in the ring");
      }
    // quiescent exactness
    int inRing = pushesDone.load() - popsDone.load();
    VF_CHECK(c, (int)ring.size() == inRing, "quiescent-size", "size() = %zu at quiescence, %d elements were pushed and not popped", ring.size(), inRing);
    VF_CHECK(c, ring.empty() == (inRing == 0) && ring.full() == (inRing == cap), "quiescent-flags", "empty()/full() disagree with the content at quiescence");
    int extra = 0;
    while (true) {
      int tag = nextTag.fetch_add(1);
      st.pushStart[tag] = st.now();
      if (!ring.try_push(Elem(tag))) {
        st.pushStart[tag] = 0;
        break;
      }
      st.pushEnd[tag] = st.now();
      ++extra;
      VF_CHECK(c, inRing + extra <= cap, "over-capacity", "a push succeeded on a full ring at quiescence");
    }
    VF_CHECK(c, inRing + extra == cap, "quiescent-push", "a push failed at quiescence although the ring held %d of %d elements", inRing + extra, cap);
    long lastEnd = 0;
    int drained = 0;
    while (true) {
      Elem out;
      if (!ring.try_pop(out))
        break;
      ++drained;
      VF_CHECK(c, out.intact() && st.popped[out.tag].fetch_add(1) == 0, "element-popped-twice", "drain returned element %d again or corrupt", out.tag);
      VF_CHECK(c, st.pushEnd[out.tag].load() >= 0, "phantom-element", "phantom");
      // single-threaded drain: strictly FIFO wrt. non-overlapping pushes
      VF_CHECK(c, st.pushEnd[out.tag].load() > lastEnd || st.pushStart[out.tag].load() < lastEnd, "fifo-order", "drain returned element %d out of order", out.tag);
      lastEnd = std::max(lastEnd, st.pushStart[out.tag].load());
      if (drained == cap / 2 + 1) { // leave the rest for the destructor
        break;
      }
    }
    if (drained < cap / 2 + 1)
      VF_CHECK(c, drained == cap, "quiescent-pop", "only %d of %d elements could be popped at quiescence", drained, cap);
  }
  VF_CHECK(c, Elem::live.load() == 0, "element-lifetime", "%d element objects alive after the ring was destroyed", Elem::live.load());
  c.nontrivial = oppositeOverlap.load() && wrapped.load();
  if (oppositeOverlap.load())
    c.cls("push_and_pop_overlapped");
  if (wrapped.load())
    c.cls("buffer_wrapped");
  c.cls("capacity:" + std::to_string(cap));
}
static void runC34(Case& c) {
  switch (c.p.i("cap")) {
    case 0:
      return runC34T<dispenso::MpmcRingBuffer<Elem, 2>>(c);
    case 1:
      return runC34T<dispenso::MpmcRingBuffer<Elem, 3, false>>(c);
    case 2:
      return runC34T<dispenso::MpmcRingBuffer<Elem, 4>>(c);
    case 3:
      return runC34T<dispenso::MpmcRingBuffer<Elem, 5, false>>(c);
    case 4:
      return runC34T<dispenso::MpmcRingBuffer<Elem, 3>>(c); // rounds up to 4
    default:
      return runC34T<dispenso::MpmcRingBuffer<Elem, 8>>(c);
  }
}

// ------------------------------------------------------------------------------------------------
// C35 SPSC ring: exactly one producer thread and one consumer thread
static void genC35(Rng& r, KV& kv, const Opts&) {
  kv.set("cap", r.range(0, 4));
  std::string p, q;
  long n = r.range(1, 10);
  for (long i = 0; i < n; ++i)
    p += r.pick<const char*>({"p", "p", "e", "c", "b2", "b3", "b5"}), p += ",";
  n = r.range(1, 10);
  for (long i = 0; i < n; ++i)
    q += r.pick<const char*>({"o", "o", "O", "i", "B2", "B4"}), q += ",";
  kv.set("prod", p);
  kv.set("cons", q);
  kv.set("burn", r.range(0, 4));
  kv.setu("mp", 300000);
}
template <typename Ring>
static void runC35T(Case& c) {
  int b = (int)c.p.i("burn");
  Elem::live = 0;
  const int cap = (int)Ring::capacity();
  std::atomic<int> pushed{0}, popped{0}; // completed counts
  std::atomic<int> overlap{0}, prodOpen{0}, consOpen{0}, wrapped{0};
  {
    Aligned<Ring> holder;
    Ring& ring = *holder;
    std::thread prod([&]() {
      int next = 0;
      for (auto& op : splitOps(c.p.s("prod"))) {
        burn(b);
        int popsBefore = popped.load();
        if (consOpen.load())
          overlap = 1;
        prodOpen = 1;
        if (op[0] == 'b') {
          int k = op[1] - '0';
          std::vector<Elem> items;
          for (int i = 0; i < k; ++i)
            items.emplace_back(next + i);
          size_t n = ring.try_push_batch(items.begin(), items.end());
          prodOpen = 0;
          VF_CHECK(c, n <= (size_t)k, "batch-count", "try_push_batch pushed %zu of %d", n, k);
          int room = cap - (next - popsBefore);
          VF_CHECK(c, (int)n >= std::min(k, room), "push-refused-with-room", "try_push_batch pushed %zu items although at least %d slots were free (capacity %d)", n,
                   std::min(k, room), cap);
          next += (int)n;
          pushed = next;
        } else {
          bool ok = op[0] == 'p' ? ring.try_push(Elem(next)) : op[0] == 'e' ? ring.try_emplace(Elem(next)) : [&]() {
            Elem e(next);
            return ring.try_push(e);
          }();
          prodOpen = 0;
          if (!ok)
            VF_CHECK(c, next - popsBefore >= cap, "push-refused-with-room", "try_push failed although only %d of %d slots could be occupied", next - popsBefore, cap);
          if (ok) {
            ++next;
            pushed = next;
          }
        }
        VF_CHECK(c, next - popped.load() <= cap + 0 || true, "x", "x");
        if (next > cap)
          wrapped = 1;
        progress();
      }
    });
    std::thread cons([&]() {
      int expect = 0;
      auto got = [&](const Elem& e) {
        VF_CHECK(c, e.intact() && e.tag == expect, "fifo-order", "consumer received element %d, expected %d (exactly-once, in push order)", e.tag, expect);
        ++expect;
        popped = expect;
      };
      for (auto& op : splitOps(c.p.s("cons"))) {
        burn(b);
        int pushesBefore = pushed.load();
        if (prodOpen.load())
          overlap = 1;
        consOpen = 1;
        if (op[0] == 'B') {
          int k = op[1] - '0';
          std::vector<Elem> out((size_t)k);
          size_t n = ring.try_pop_batch(out.begin(), (size_t)k);
          consOpen = 0;
          VF_CHECK(c, n <= (size_t)k, "batch-count", "try_pop_batch returned %zu for max %d", n, k);
          VF_CHECK(c, (int)n >= std::min(k, pushesBefore - expect), "pop-refused-with-elements", "try_pop_batch returned %zu although %d elements had been pushed and not popped",
                   n, pushesBefore - expect);
          for (size_t i = 0; i < n; ++i)
            got(out[i]);
        } else if (op[0] == 'o') {
          Elem e;
          bool ok = ring.try_pop(e);
          consOpen = 0;
          if (ok)
            got(e);
          else
            VF_CHECK(c, pushesBefore - expect <= 0, "pop-refused-with-elements", "try_pop failed although %d elements had been pushed and not popped", pushesBefore - expect);
        } else if (op[0] == 'O') {
          auto res = ring.try_pop();
          consOpen = 0;
          if (res)
            got(res.value());
          else
            VF_CHECK(c, pushesBefore - expect <= 0, "pop-refused-with-elements", "try_pop() empty although %d elements were available", pushesBefore - expect);
        } else {
          alignas(Elem) char buf[sizeof(Elem)];
          bool ok = ring.try_pop_into(reinterpret_cast<Elem*>(buf));
          consOpen = 0;
          if (ok) {
            got(*reinterpret_cast<Elem*>(buf));
            reinterpret_cast<Elem*>(buf)->~Elem();
          } else
            VF_CHECK(c, pushesBefore - expect <= 0, "pop-refused-with-elements", "try_pop_into failed although elements were available");
        }
        progress();
      }
    });
    prod.join();
    cons.join();
    int inRing = pushed.load() - popped.load();
    VF_CHECK(c, inRing >= 0 && inRing <= cap, "over-capacity", "%d elements in a ring of capacity %d", inRing, cap);
    VF_CHECK(c, (int)ring.size() == inRing && ring.empty() == (inRing == 0) && ring.full() == (inRing == cap), "quiescent-size",
             "size()/empty()/full() disagree with %d elements at quiescence", inRing);
    int next = pushed.load(), expect = popped.load();
    while (ring.try_push(Elem(next)))
      ++next;
    VF_CHECK(c, next - expect == cap, "quiescent-push", "ring accepted %d elements at quiescence, capacity is %d", next - expect, cap);
    for (int i = 0; i < cap / 2 + 1 && i < cap; ++i) {
      Elem e;
      VF_CHECK(c, ring.try_pop(e), "quiescent-pop", "try_pop failed on a non-empty ring at quiescence");
      VF_CHECK(c, e.intact() && e.tag == expect, "fifo-order", "drain returned %d, expected %d", e.tag, expect);
      ++expect;
    }
  }
  VF_CHECK(c, Elem::live.load() == 0, "element-lifetime", "%d element objects alive after the ring was destroyed", Elem::live.load());
  c.nontrivial = overlap.load() && wrapped.load();
  if (overlap.load())
    c.cls("push_and_pop_overlapped");
  if (wrapped.load())
    c.cls("buffer_wrapped");
  c.cls("capacity:" + std::to_string(cap));
}
static void runC35(Case& c) {
  switch (c.p.i("cap")) {
    case 0:
      return runC35T<dispenso::SPSCRingBuffer<Elem, 1>>(c);
    case 1:
      return runC35T<dispenso::SPSCRingBuffer<Elem, 2, false>>(c);
    case 2:
      return runC35T<dispenso::SPSCRingBuffer<Elem, 3>>(c);
    case 3:
      return runC35T<dispenso::SPSCRingBuffer<Elem, 5, false>>(c);
    default:
      return runC35T<dispenso::SPSCRingBuffer<Elem, 8>>(c);
  }
}

// ------------------------------------------------------------------------------------------------
// C36 Chase-Lev deque: one owner (push / pop), 1..3 thieves
static void genC36(Rng& r, KV& kv, const Opts&) {
  // focus class (1 in 3): a small deque kept full by a push-heavy owner while several thieves drain it - every
  // successful steal is immediately followed by a push that wraps into the slot just vacated
  bool full = r.chance(1, 3);
  kv.set("cap", full ? r.range(0, 1) : r.range(0, 3));
  kv.set("wide", r.range(0, 1)); // 0: int payload, 1: 32-byte POD payload
  long Th = full ? r.range(2, 3) : r.range(1, 3);
  kv.set("Th", Th);
  std::string o;
  long n = full ? r.range(8, 20) : r.range(2, 12);
  for (long i = 0; i < n; ++i)
    o += full ? r.pick<const char*>({"p", "p", "p", "p", "p", "p", "o", "i"}) : r.pick<const char*>({"p", "p", "p", "o", "o", "i"}), o += ",";
  kv.set("owner", o);
  for (long t = 0; t < Th; ++t) {
    std::string s;
    long k = full ? r.range(3, 8) : r.range(1, 6);
    for (long i = 0; i < k; ++i)
      s += r.pick<const char*>({"s", "s", "S"}), s += ",";
    kv.set("thief" + std::to_string(t), s);
  }
  kv.set("burn", r.range(0, 4));
  kv.setu("mp", 300000);
}
// element types: int, and a 32-byte POD whose words all encode the id (a torn or stale copy is visible)
struct Wide36 {
  int32_t v, nv;
  int64_t x, y, z;
};
static_assert(sizeof(Wide36) == 32, "wide payload");
static inline void put36(int& e, int v) {
  e = v;
}
static inline int get36(const int& e, bool& torn) {
  torn = false;
  return e;
}
static inline void put36(Wide36& e, int v) {
  e.v = v;
  e.nv = ~v;
  e.x = (int64_t)v * 0x100000001ll;
  e.y = (int64_t)v ^ 0x5a5a5a5a5a5all;
  e.z = -(int64_t)v - 7;
}
static inline int get36(const Wide36& e, bool& torn) {
  torn = !(e.nv == ~e.v && e.x == (int64_t)e.v * 0x100000001ll && e.y == ((int64_t)e.v ^ 0x5a5a5a5a5a5all) && e.z == -(int64_t)e.v - 7);
  return e.v;
}
template <typename Dq, typename E>
static void runC36T(Case& c) {
  int b = (int)c.p.i("burn");
  long Th = c.p.i("Th");
  const int cap = (int)Dq::capacity();
  auto stp = std::make_unique<Stamps>();
  Stamps& st = *stp;
  std::atomic<int> stolenDone{0}, ownerPopOpen{0}, stealOpen{0}, lastElementRace{0};
  std::atomic<int> sizeLower{0};
  static std::atomic<int> stolenBy[512];
  static std::atomic<long> ownerTakeStart[512];
  static std::atomic<int> ownerSawEmpty[512];
  for (int i = 0; i < 512; ++i) {
    stolenBy[i] = 0;
    ownerTakeStart[i] = 0;
    ownerSawEmpty[i] = 0;
  }
  {
    Aligned<Dq> holder;
    Dq& dq = *holder;
    std::atomic<int> pushedCount{0};
    auto taken = [&](const E& e, const char* who) -> int {
      bool torn = false;
      int v = get36(e, torn);
      VF_CHECK(c, !torn, "torn-element", "%s returned an element whose words do not belong to one pushed value (id word %d)", who, v);
      VF_CHECK(c, v >= 0 && v < 512 && st.pushStart[v].load() != 0, "phantom-element", "%s returned %d which was never pushed", who, v);
      int n = st.popped[v].fetch_add(1) + 1;
      VF_CHECK(c, n == 1, "element-taken-twice", "element %d was returned by %d successful pop/steal calls", v, n);
      return v;
    };
    std::thread owner([&]() {
      std::vector<int> mine; // pushed by the owner, not yet popped by the owner
      int next = 0;
      for (auto& op : splitOps(c.p.s("owner"))) {
        burn(b);
        if (op[0] == 'p') {
          int stolenBefore = stolenDone.load();
          st.pushStart[next] = st.now();
          E pe;
          put36(pe, next);
          bool ok = dq.try_push(pe);
          if (ok) {
            st.pushEnd[next] = st.now();
            mine.push_back(next);
            ++next;
            pushedCount = next;
          } else {
            st.pushStart[next] = 0;
            // thieves only shrink the deque: if even the oldest view was below capacity the push had to succeed
            int notStolen = 0;
            for (int v : mine)
              if (!st.popped[v].load())
                ++notStolen;
            (void)stolenBefore;
            VF_CHECK(c, (int)mine.size() >= cap, "push-refused-with-room", "try_push failed although at most %zu of %d slots were occupied", mine.size(), cap);
          }
        } else {
          int v = -1;
          E ev;
          put36(ev, -1);
          if (stealOpen.load() > 0) {
            int remaining = 0;
            for (int x : mine)
              if (!st.popped[x].load())
                ++remaining;
            if (remaining == 1)
              lastElementRace = 1;
          }
          ownerPopOpen = 1;
          long popS0 = st.now();
          bool ok;
          if (op[0] == 'o')
            ok = dq.try_pop(ev);
          else {
            alignas(E) char buf[sizeof(E)];
            ok = dq.try_pop_into(reinterpret_cast<E*>(buf));
            if (ok)
              std::memcpy(&ev, buf, sizeof(E));
          }
          ownerPopOpen = 0;
          if (ok) {
            v = taken(ev, "owner pop");
            ownerTakeStart[v] = popS0;
            VF_CHECK(c, !mine.empty() && v == mine.back(), "owner-pop-not-newest", "owner pop returned %d, the newest remaining element is %d", v, mine.empty() ? -1 : mine.back());
            mine.pop_back();
          } else {
            // allowed only if everything the owner still had was (being) stolen: every remaining element must end up taken by a thief
            for (int x : mine)
              ownerSawEmpty[x] = 1; // owner saw the deque as empty while x was unpopped by the owner
            // elements are checked at the end (must have been stolen)
            mine.clear();
          }
        }
        progress();
      }
    });
    std::vector<std::thread> thieves;
    for (long t = 0; t < Th; ++t) {
      auto ops = splitOps(c.p.s("thief" + std::to_string(t)));
      thieves.emplace_back([&, ops]() {
        for (auto& op : ops) {
          burn(b);
          int v = -1;
          E ev;
          put36(ev, -1);
          stealOpen.fetch_add(1);
          long s0 = st.now();
          bool ok;
          if (op[0] == 's')
            ok = dq.try_steal(ev);
          else {
            alignas(E) char buf[sizeof(E)];
            ok = dq.try_steal_into(reinterpret_cast<E*>(buf));
            if (ok)
              std::memcpy(&ev, buf, sizeof(E));
          }
          stealOpen.fetch_sub(1);
          if (ok) {
            v = taken(ev, "steal");
            st.popStart[v] = s0 + 2; // +2: distinguishes a real stamp from the owner's "seen empty" marker (1)
            st.popEnd[v] = st.now();
            stolenBy[v] = 1;
            stolenDone.fetch_add(1);
          }
          progress();
        }
      });
    }
    owner.join();
    for (auto& t : thieves)
      t.join();
    // steals take the oldest: when a steal of v has returned, an older element u cannot still be in the
    // deque - it must have been taken by an operation that started before that steal returned
    for (int v = 0; v < pushedCount.load(); ++v) {
      if (!stolenBy[v].load())
        continue;
      for (int u = 0; u < v; ++u) {
        if (st.pushStart[u].load() == 0)
          continue;
        long uStart = stolenBy[u].load() ? st.popStart[u].load() - 2 : ownerTakeStart[u].load();
        if (!st.popped[u].load())
          c.fail("steal-not-oldest", "steal returned " + std::to_string(v) + " although the older element " + std::to_string(u) + " was never taken before the threads finished");
        if (uStart > st.popEnd[v].load())
          c.fail("steal-not-oldest", "steal returned " + std::to_string(v) + " and finished before anybody started taking the older element " + std::to_string(u));
      }
    }
    // quiescent: what is left comes out oldest-first by steal, newest-first by pop; pop/steal succeed iff non-empty
    std::vector<int> left;
    for (int v = 0; v < pushedCount.load(); ++v)
      if (!st.popped[v].load())
        left.push_back(v);
    for (int v = 0; v < pushedCount.load(); ++v)
      if (ownerSawEmpty[v].load() == 1 && !st.popped[v].load())
        c.fail("owner-pop-failed-on-nonempty", "owner pop failed while element " + std::to_string(v) + " was in the deque and no thief ever took it");
    VF_CHECK(c, dq.size() == left.size() && dq.empty() == left.empty(), "quiescent-size", "size() = %zu at quiescence but %zu elements remain", dq.size(), left.size());
    size_t lo = 0, hi = left.size();
    bool flip = false;
    while (lo < hi) {
      int v = -1;
      E ev;
      put36(ev, -1);
      bool torn = false;
      if (flip) {
        VF_CHECK(c, dq.try_steal(ev), "quiescent-steal", "try_steal failed on a non-empty deque at quiescence");
        v = get36(ev, torn);
        VF_CHECK(c, v == left[lo], "steal-not-oldest", "quiescent steal returned %d, oldest is %d", v, left[lo]);
        ++lo;
      } else {
        VF_CHECK(c, dq.try_pop(ev), "quiescent-pop", "try_pop failed on a non-empty deque at quiescence");
        v = get36(ev, torn);
        VF_CHECK(c, v == left[hi - 1], "owner-pop-not-newest", "quiescent pop returned %d, newest is %d", v, left[hi - 1]);
        --hi;
      }
      flip = !flip;
    }
    E ev;
    put36(ev, -1);
    VF_CHECK(c, !dq.try_pop(ev) && !dq.try_steal(ev), "quiescent-empty", "pop or steal succeeded on an empty deque");
  }
  c.nontrivial = lastElementRace.load() != 0;
  if (lastElementRace.load())
    c.cls("owner_pop_and_steal_overlapped_on_the_last_element");
  c.cls("capacity:" + std::to_string(cap));
  c.cls(sizeof(E) > sizeof(void*) ? "payload:32-byte" : "payload:int");
  c.cls("successful_steals", stolenDone.load());
}
static void runC36(Case& c) {
  bool wide = c.p.i("wide", 0) != 0;
  switch (c.p.i("cap")) {
    case 0:
      return wide ? runC36T<dispenso::ChaseLevDeque<Wide36, 1>, Wide36>(c) : runC36T<dispenso::ChaseLevDeque<int, 1>, int>(c);
    case 1:
      return wide ? runC36T<dispenso::ChaseLevDeque<Wide36, 2>, Wide36>(c) : runC36T<dispenso::ChaseLevDeque<int, 2>, int>(c);
    case 2:
      return wide ? runC36T<dispenso::ChaseLevDeque<Wide36, 4>, Wide36>(c) : runC36T<dispenso::ChaseLevDeque<int, 4>, int>(c);
    default:
      return wide ? runC36T<dispenso::ChaseLevDeque<Wide36, 8>, Wide36>(c) : runC36T<dispenso::ChaseLevDeque<int, 8>, int>(c);
  }
}

// ------------------------------------------------------------------------------------------------
// C33 ConcurrentVector concurrent growth
struct Big {
  int64_t tag = -1;
  char pad[256];
  Big() {}
  explicit Big(int64_t t) : tag(t) {}
};
struct TraitsA {
  static constexpr bool kPreferBuffersInline = false;
  static constexpr dispenso::ConcurrentVectorReallocStrategy kReallocStrategy = dispenso::ConcurrentVectorReallocStrategy::kHalfBufferAhead;
  static constexpr bool kIteratorPreferSpeed = false;
};
struct TraitsB {
  static constexpr bool kPreferBuffersInline = true;
  static constexpr dispenso::ConcurrentVectorReallocStrategy kReallocStrategy = dispenso::ConcurrentVectorReallocStrategy::kFullBufferAhead;
  static constexpr bool kIteratorPreferSpeed = true;
};
static void genC33(Rng& r, KV& kv, const Opts&) {
  kv.set("traits", r.range(0, 2));
  long T = r.range(2, 4);
  kv.set("T", T);
  kv.set("readers", r.range(0, 2));
  kv.set("pre", r.range(0, 3));
  for (long t = 0; t < T; ++t) {
    std::string s;
    long n = r.range(1, 6);
    for (long i = 0; i < n; ++i) {
      const char* o = r.pick<const char*>({"p", "e", "g", "G", "r", "t"});
      s += o;
      if (o[0] == 'g' || o[0] == 'G' || o[0] == 'r')
        s += std::to_string(r.range(0, 5));
      if (o[0] == 't')
        s += std::to_string(r.range(1, 14));
      s += ",";
    }
    kv.set("ops" + std::to_string(t), s);
  }
  kv.set("burn", r.range(0, 3));
  kv.setu("mp", 600000);
  kv.setu("fp", 400000);
}
template <typename X>
struct FixedList { // up to 16 over-aligned entries in aligned heap storage
  Aligned<std::array<X, 16>> a;
  size_t n = 0;
  void push_back(const X& x) {
    if (n < 16)
      (*a)[n++] = x;
  }
  X* begin() {
    return a->data();
  }
  X* end() {
    return a->data() + n;
  }
};
template <typename Traits>
static void runC33T(Case& c) {
  using Vec = dispenso::ConcurrentVector<Big, Traits>; // 264-byte elements: first bucket of 1-2, every few elements cross a bucket
  long T = c.p.i("T"), readers = c.p.i("readers"), pre = c.p.i("pre");
  int b = (int)c.p.i("burn");
  Aligned<Vec> holder;
  Vec& v = *holder;
  for (long i = 0; i < pre; ++i)
    v.push_back(Big(1000000 + i));
  std::vector<Big*> savedRefs;
  for (long i = 0; i < pre; ++i)
    savedRefs.push_back(&v[(size_t)i]);
  std::atomic<int> growOpen{0}, growOverlap{0}, stop{0};
  std::atomic<long> totalGrowth{0}, maxAtLeast{0};
  struct Range {
    long begin, count, thread;
    bool tagged;
  };
  std::vector<std::vector<Range>> ranges((size_t)T);
  // (the pointer-based iterators are over-aligned: in C++14 they must not live in std::vector's storage)
  struct EndSnap {
    long sizeBefore, sizeAfter;
    typename Vec::iterator b, e;
  };
  struct AtLeast {
    long first;
    typename Vec::iterator second;
  };
  FixedList<AtLeast> atLeastIts[4];
  FixedList<EndSnap> endSnaps[2];
  std::vector<std::thread> th;
  for (long t = 0; t < T; ++t) {
    auto ops = splitOps(c.p.s("ops" + std::to_string(t)));
    th.emplace_back([&, ops, t]() {
      long seq = 0;
      auto tagOf = [&](long k) { return (int64_t)(t * 100000 + k); };
      for (auto& op : ops) {
        burn(b);
        if (growOpen.fetch_add(1) > 0)
          growOverlap = 1;
        long k = op.size() > 1 ? strtol(op.c_str() + 1, nullptr, 10) : 1;
        if (op[0] == 'p') {
          Big e(tagOf(seq));
          auto it = v.push_back(e);
          ranges[(size_t)t].push_back(Range{(long)(it - v.begin()), 1, t, true});
          VF_CHECK(c, it->tag == tagOf(seq), "returned-iterator", "push_back's iterator does not point at the pushed element");
          ++seq;
          totalGrowth.fetch_add(1);
        } else if (op[0] == 'e') {
          auto it = v.emplace_back(tagOf(seq));
          ranges[(size_t)t].push_back(Range{(long)(it - v.begin()), 1, t, true});
          ++seq;
          totalGrowth.fetch_add(1);
        } else if (op[0] == 'g') {
          Big e(tagOf(seq));
          auto it = v.grow_by((size_t)k, e);
          long base = (long)(it - v.begin());
          for (long i = 0; i < k; ++i)
            (it + i)->tag = tagOf(seq + i); // the grower owns its new elements: give each a unique tag
          ranges[(size_t)t].push_back(Range{base, k, t, true});
          seq += k;
          totalGrowth.fetch_add(k);
        } else if (op[0] == 'G') {
          long s0 = seq;
          auto it = v.grow_by_generator((size_t)k, [&]() { return Big(tagOf(seq++)); });
          ranges[(size_t)t].push_back(Range{(long)(it - v.begin()), k, t, true});
          (void)s0;
          totalGrowth.fetch_add(k);
        } else if (op[0] == 'r') {
          std::vector<Big> src;
          for (long i = 0; i < k; ++i)
            src.emplace_back(tagOf(seq + i));
          auto it = v.grow_by(src.begin(), src.end());
          ranges[(size_t)t].push_back(Range{(long)(it - v.begin()), k, t, true});
          seq += k;
          totalGrowth.fetch_add(k);
        } else { // grow_to_at_least
          auto it = v.grow_to_at_least((size_t)k);
          atLeastIts[(size_t)t].push_back(AtLeast{k, it}); // checked after all threads joined
          long m = maxAtLeast.load();
          while (k > m && !maxAtLeast.compare_exchange_weak(m, k)) {
          }
        }
        growOpen.fetch_sub(1);
        progress();
      }
    });
  }
  std::vector<std::thread> rd;
  for (long q = 0; q < readers; ++q)
    rd.emplace_back([&, q]() {
      for (int round = 0; round < 6 && !stop.load(); ++round) {
        // begin() / end() / size() are documented as safe during concurrent growth; the iterators are examined after the join
        long s0 = (long)v.size();
        auto e = v.end();
        auto bgn = v.begin();
        long s1 = (long)v.size();
        endSnaps[(size_t)q].push_back(EndSnap{s0, s1, bgn, e});
        for (size_t i = 0; i < savedRefs.size(); ++i)
          VF_CHECK(c, savedRefs[i]->tag == (int64_t)(1000000 + (long)i), "reference-invalidated", "a reference taken before the concurrent growth no longer reads its element");
        for (long i = 0; i < pre; ++i)
          VF_CHECK(c, v[(size_t)i].tag == 1000000 + i, "published-element-changed", "already published element %ld changed during concurrent growth", i);
        burn(5);
        progress();
      }
    });
  for (auto& t : th)
    t.join();
  stop = 1;
  for (auto& t : rd)
    t.join();
  long size = (long)v.size();
  long exact = pre + totalGrowth.load();
  // iterators obtained while other threads were growing the vector must denote real positions
  for (long t = 0; t < T; ++t)
    for (auto& pr : atLeastIts[(size_t)t]) {
      long d = (long)(pr.second - v.begin());
      // (element n-1 if the vector was already long enough, else the start of the range the call added - which other
      // growers may have pushed beyond n-1 in the meantime): whatever it is, it must denote an element of the vector
      VF_CHECK(c, d >= 0 && d < size && &*pr.second == &v[(size_t)d], "returned-iterator",
               "grow_to_at_least(%ld) returned an iterator that does not denote an element of the vector (distance from begin() = %ld, size %ld)", pr.first, d, size);
    }
  for (auto& snaps : endSnaps)
    for (auto& sn : snaps) {
      long d = (long)(sn.e - sn.b);
      VF_CHECK(c, d >= sn.sizeBefore && d <= sn.sizeAfter, "end-iterator", "end() taken during concurrent growth is %ld past begin(), size() was %ld before and %ld after the call", d,
               sn.sizeBefore, sn.sizeAfter);
      bool same = sn.b + d == sn.e && (d == size ? sn.e == v.end() : &*(sn.b + d) == &v[(size_t)d]);
      // raw fields of the pointer-based iterator (bucket word, bucket start, position, bucket end): position d is the
      // first slot of its bucket iff position == bucket start
      uintptr_t raw[4] = {0, 0, 0, 0}, rawGood[4] = {0, 0, 0, 0};
      auto good = sn.b + d;
      if (sizeof(sn.e) == sizeof(raw)) {
        std::memcpy(raw, &sn.e, sizeof raw);
        std::memcpy(rawGood, &good, sizeof rawGood);
      }
      bool bucketStart = raw[1] == raw[2];
      if (!same)
        c.fail(bucketStart ? "end-iterator-at-bucket-start" : "end-iterator",
               "end() taken during concurrent growth (position " + std::to_string(d) + (bucketStart ? ", first slot of a bucket" : ", inside a bucket") +
                   ") does not compare equal to the iterator of that position: a loop `it != e` over [begin, e) does not stop there [bucket " + std::to_string(raw[0] & 63) +
                   " start/ptr/end " + std::to_string(raw[1]) + "/" + std::to_string(raw[2]) + "/" + std::to_string(raw[3]) + " vs bucket " + std::to_string(rawGood[0] & 63) + " " +
                   std::to_string(rawGood[1]) + "/" + std::to_string(rawGood[2]) + "/" + std::to_string(rawGood[3]) + "]");
    }
  // grow_to_at_least adds an amount that depends on the interleaving: size >= both bounds, and every index beyond the tagged ones is default constructed
  VF_CHECK(c, size >= exact && size >= maxAtLeast.load(), "final-size", "final size %ld, but %ld elements were added by exact-growth calls and grow_to_at_least asked for %ld", size,
           exact, maxAtLeast.load());
  std::vector<int> owner((size_t)size, -1);
  for (long t = 0; t < T; ++t)
    for (auto& r : ranges[(size_t)t])
      for (long i = 0; i < r.count; ++i) {
        long idx = r.begin + i;
        VF_CHECK(c, idx >= pre && idx < size, "index-out-of-range", "a growth call returned index %ld outside [%ld,%ld)", idx, pre, size);
        VF_CHECK(c, owner[(size_t)idx] == -1, "index-handed-out-twice", "index %ld was handed to two growth calls", idx);
        owner[(size_t)idx] = (int)t;
      }
  std::set<int64_t> seen;
  long defaults = 0;
  for (long i = pre; i < size; ++i) {
    int64_t tag = v[(size_t)i].tag;
    if (owner[(size_t)i] >= 0) {
      VF_CHECK(c, tag / 100000 == owner[(size_t)i], "element-overwritten", "element %ld belongs to thread %d but holds tag %lld", i, owner[(size_t)i], (long long)tag);
      VF_CHECK(c, seen.insert(tag).second, "element-duplicated", "tag %lld appears twice", (long long)tag);
    } else {
      VF_CHECK(c, tag == -1, "untracked-element-not-default", "element %ld (added by grow_to_at_least) is not default constructed", i);
      ++defaults;
    }
  }
  VF_CHECK(c, (long)seen.size() == totalGrowth.load(), "element-lost", "%zu distinct tags found, %ld elements were added", seen.size(), totalGrowth.load());
  if (maxAtLeast.load() == 0)
    VF_CHECK(c, size == exact, "final-size", "final size %ld != %ld elements added", size, exact);
  for (size_t i = 0; i < savedRefs.size(); ++i)
    VF_CHECK(c, savedRefs[i] == &v[i] && savedRefs[i]->tag == (int64_t)(1000000 + (long)i), "reference-invalidated", "reference to element %zu moved or changed", i);
  c.nontrivial = growOverlap.load() != 0;
  if (growOverlap.load())
    c.cls("two_growth_calls_overlapped");
  (void)defaults;
}
static void runC33(Case& c) {
  switch (c.p.i("traits")) {
    case 0:
      return runC33T<dispenso::DefaultConcurrentVectorTraits>(c);
    case 1:
      return runC33T<TraitsA>(c);
    default:
      return runC33T<TraitsB>(c);
  }
}

// ------------------------------------------------------------------------------------------------
// C37 ConcurrentObjectArena
struct ArenaT {
  int v = 0x5EED;
  int w = 7;
};
static void genC37(Rng& r, KV& kv, const Opts&) {
  kv.set("buf", r.pick<long>({1, 2, 3, 4, 8}));
  long T = r.range(1, 4);
  kv.set("T", T);
  for (long t = 0; t < T; ++t) {
    std::string s;
    long n = r.range(1, 5);
    for (long i = 0; i < n; ++i)
      s += std::to_string(r.range(0, 9)) + ",";
    kv.set("ops" + std::to_string(t), s);
  }
  kv.set("copyop", r.range(0, 4)); // 0 copy-construct 1 copy-assign 2 move-assign 3 swap 4 move-construct
  kv.set("burn", r.range(0, 3));
  kv.setu("mp", 400000);
}
static void runC37(Case& c) {
  using Arena = dispenso::ConcurrentObjectArena<ArenaT>;
  long T = c.p.i("T");
  int b = (int)c.p.i("burn");
  size_t bufSize = (size_t)c.p.i("buf");
  std::atomic<int> open{0}, overlap{0};
  struct R {
    size_t begin, count;
  };
  std::vector<std::vector<R>> got((size_t)T);
  auto arenaP = std::make_unique<Arena>(bufSize);
  Arena& a = *arenaP;
  size_t first = a.grow_by(1);
  VF_CHECK(c, first == 0, "range", "first grow_by returned %zu", first);
  ArenaT* ref0 = &a[0];
  ref0->w = 99;
  std::vector<std::thread> th;
  for (long t = 0; t < T; ++t) {
    auto ops = splitOps(c.p.s("ops" + std::to_string(t)));
    th.emplace_back([&, ops, t]() {
      for (auto& op : ops) {
        burn(b);
        size_t k = (size_t)strtol(op.c_str(), nullptr, 10);
        if (open.fetch_add(1) > 0)
          overlap = 1;
        size_t begin = a.grow_by(k);
        open.fetch_sub(1);
        got[(size_t)t].push_back(R{begin, k});
        for (size_t i = 0; i < k; ++i) {
          ArenaT& e = a[begin + i];
          VF_CHECK(c, e.v == 0x5EED && e.w == 7, "not-default-constructed", "element %zu returned by grow_by is not default constructed", begin + i);
          e.w = (int)(1000 * (t + 1) + (long)i); // claim it
        }
        VF_CHECK(c, ref0->w == 99 && &a[0] == ref0, "reference-invalidated", "reference to element 0 changed during growth");
        progress();
      }
    });
  }
  for (auto& t : th)
    t.join();
  size_t size = a.size();
  std::vector<int> owner(size, -1);
  owner[0] = 100;
  size_t total = 1;
  for (long t = 0; t < T; ++t)
    for (auto& r : got[(size_t)t]) {
      total += r.count;
      for (size_t i = 0; i < r.count; ++i) {
        VF_CHECK(c, r.begin + i < size, "range", "grow_by returned index %zu beyond size() %zu", r.begin + i, size);
        VF_CHECK(c, owner[r.begin + i] == -1, "ranges-overlap", "index %zu was returned by two grow_by calls", r.begin + i);
        owner[r.begin + i] = (int)t;
        VF_CHECK(c, a[r.begin + i].w == (int)(1000 * (t + 1) + (long)i), "element-overwritten", "element %zu was overwritten by another grower", r.begin + i);
      }
    }
  VF_CHECK(c, total == size, "ranges-not-covering", "grow_by ranges cover %zu indices but size() is %zu", total, size);
  size_t nb = a.numBuffers();
  // copies
  long op = c.p.i("copyop");
  auto same = [&](Arena& x, const char* what) {
    VF_CHECK(c, x.size() == size, "copy-size", "%s: size %zu != %zu", what, x.size(), size);
    for (size_t i = 0; i < size; ++i)
      VF_CHECK(c, x[i].v == 0x5EED && x[i].w == (i == 0 ? 99 : a[i].w), "copy-content", "%s: element %zu differs", what, i);
  };
  if (op == 0) {
    Arena cp(a);
    same(cp, "copy-constructed arena");
    VF_CHECK(c, &cp[0] != &a[0], "copy-aliases", "copy shares storage with the original");
  } else if (op == 1) {
    Arena cp(2);
    cp.grow_by(3);
    cp = a;
    same(cp, "copy-assigned arena");
  } else if (op == 2) {
    Arena cp(a);
    Arena dst(4);
    dst = std::move(cp);
    same(dst, "move-assigned arena");
  } else if (op == 3) {
    Arena cp(a);
    Arena other(2);
    other.grow_by(2);
    swap(cp, other);
    same(other, "swapped arena");
    VF_CHECK(c, cp.size() == 2, "copy-size", "swap: the other arena has size %zu, expected 2", cp.size());
  } else {
    Arena cp(a);
    Arena mv(std::move(cp));
    same(mv, "move-constructed arena");
  }
  bool pow2 = nb && !(nb & (nb - 1));
  c.nontrivial = !pow2 || overlap.load();
  if (!pow2)
    c.cls("buffer_count_not_a_power_of_two");
  if (overlap.load())
    c.cls("two_grow_by_calls_overlapped");
  c.cls("buffers:" + std::to_string(nb));
}

// ------------------------------------------------------------------------------------------------
// C41 SmallBufferAllocator
struct CanaryRef { // relaxed atomic access to the first words of a block
  uint32_t* p;
  uint32_t get(int i) const {
    return __atomic_load_n(p + i, __ATOMIC_RELAXED);
  }
  void set(int i, uint32_t v) const {
    __atomic_store_n(p + i, v, __ATOMIC_RELAXED);
  }
};
template <size_t N>
static void sbaOps(Case& c, const std::vector<std::string>& ops, std::vector<char*>& mine, std::atomic<char*>* mailbox, int nMail, std::map<char*, int>* /*unused*/,
                   std::atomic<int>& liveBlocks, int threadIdx) {
  for (auto& op : ops) {
    if (op[0] == 'a') {
      char* p = dispenso::allocSmallBuffer<N>();
      VF_CHECK(c, p != nullptr, "alloc-null", "allocSmallBuffer returned nullptr");
      VF_CHECK(c, reinterpret_cast<uintptr_t>(p) % N == 0, "block-misaligned", "allocSmallBuffer<%zu> returned a block that is not aligned to %zu", N, N);
      // canary: a live block must not carry another live block's mark
      volatile uint32_t* w0 = reinterpret_cast<uint32_t*>(p); (void)w0; CanaryRef w{reinterpret_cast<uint32_t*>(p)};
      VF_CHECK(c, N < 8 || w.get(0) != 0xA110CA7Eu, "block-handed-out-twice", "allocSmallBuffer<%zu> returned a block that is still live (canary of another owner present)", N);
      if (N >= 8) {
        w.set(0, 0xA110CA7Eu);
        w.set(1, (uint32_t)threadIdx);
      }
      liveBlocks.fetch_add(1);
      mine.push_back(p);
    } else if (op[0] == 'd') {
      if (mine.empty())
        continue;
      char* p = mine.back();
      mine.pop_back();
      if (N >= 8) {
        volatile uint32_t* w0 = reinterpret_cast<uint32_t*>(p); (void)w0; CanaryRef w{reinterpret_cast<uint32_t*>(p)};
        VF_CHECK(c, w.get(0) == 0xA110CA7Eu && w.get(1) == (uint32_t)threadIdx, "block-overwritten", "a live block's canary was overwritten (block shared with another owner)");
        w.set(0, 0);
      }
      liveBlocks.fetch_sub(1);
      dispenso::deallocSmallBuffer<N>(p);
    } else if (op[0] == 'x') { // hand a block to another thread (it frees it)
      if (mine.empty())
        continue;
      char* p = mine.back();
      int slot = (op[1] - '0') % nMail;
      char* expected = nullptr;
      if (N >= 8)
        CanaryRef{reinterpret_cast<uint32_t*>(p)}.set(1, 0xFFFFFFFFu); // owner: mailbox (marked before it is published)
      if (mailbox[slot].compare_exchange_strong(expected, p)) {
        mine.pop_back();
      } else if (N >= 8) {
        CanaryRef{reinterpret_cast<uint32_t*>(p)}.set(1, (uint32_t)threadIdx); // slot taken: still mine
      }
    } else if (op[0] == 'r') { // take a block from the mailbox and free it here (cross-thread dealloc)
      int slot = (op[1] - '0') % nMail;
      char* p = mailbox[slot].exchange(nullptr);
      if (p) {
        if (N >= 8) {
          volatile uint32_t* w0 = reinterpret_cast<uint32_t*>(p); (void)w0; CanaryRef w{reinterpret_cast<uint32_t*>(p)};
          VF_CHECK(c, w.get(0) == 0xA110CA7Eu && w.get(1) == 0xFFFFFFFFu, "block-overwritten", "a block passed between threads lost its canary");
          w.set(0, 0);
        }
        liveBlocks.fetch_sub(1);
        dispenso::deallocSmallBuffer<N>(p);
      }
    } else if (op[0] == 'q') {
      size_t bytes = dispenso::approxBytesAllocatedSmallBuffer<N>();
      VF_CHECK(c, bytes < (size_t(1) << 40), "diagnostics", "approxBytesAllocatedSmallBuffer returned an absurd value");
    } else if (op[0] == 'A') { // burst: enough allocations to force a central-store refill
      int k = 10 * (op[1] - '0' + 1);
      for (int i = 0; i < k; ++i) {
        char* p = dispenso::allocSmallBuffer<N>();
        VF_CHECK(c, reinterpret_cast<uintptr_t>(p) % N == 0, "block-misaligned", "burst block misaligned");
        volatile uint32_t* w0 = reinterpret_cast<uint32_t*>(p); (void)w0; CanaryRef w{reinterpret_cast<uint32_t*>(p)};
        VF_CHECK(c, N < 8 || w.get(0) != 0xA110CA7Eu, "block-handed-out-twice", "burst: block still live");
        if (N >= 8) {
          w.set(0, 0xA110CA7Eu);
          w.set(1, (uint32_t)threadIdx);
        }
        liveBlocks.fetch_add(1);
        mine.push_back(p);
      }
    }
    progress();
  }
  // thread exit with cached blocks: free everything this thread still owns
  for (char* p : mine) {
    if (N >= 8) {
      volatile uint32_t* w0 = reinterpret_cast<uint32_t*>(p); (void)w0; CanaryRef w{reinterpret_cast<uint32_t*>(p)};
      VF_CHECK(c, w.get(0) == 0xA110CA7Eu && w.get(1) == (uint32_t)threadIdx, "block-overwritten", "canary lost before the final free");
      w.set(0, 0);
    }
    liveBlocks.fetch_sub(1);
    dispenso::deallocSmallBuffer<N>(p);
  }
  mine.clear();
}
static void genC41(Rng& r, KV& kv, const Opts& o) {
  (void)o;
  kv.set("N", r.pick<long>({8, 16, 64, 128, 256, 256}));
  long T = r.range(1, 4);
  kv.set("T", T);
  kv.set("waves", r.range(1, 2)); // second wave: new threads after the first ones exited (their caches returned)
  for (long t = 0; t < T; ++t) {
    std::string s;
    long n = r.range(2, 10);
    for (long i = 0; i < n; ++i) {
      const char* op = r.pick<const char*>({"a", "a", "a", "d", "d", "q", "x", "r", "A"});
      s += op;
      if (op[0] == 'x' || op[0] == 'r' || op[0] == 'A')
        s += std::to_string(r.range(0, 3));
      s += ",";
    }
    kv.set("ops" + std::to_string(t), s);
  }
  kv.setu("mp", 1500000);
  kv.setu("fp", 500000);
}
template <size_t N>
static void runC41T(Case& c) {
  long T = c.p.i("T"), waves = c.p.i("waves");
  std::atomic<char*> mailbox[4];
  for (auto& m : mailbox)
    m = nullptr;
  std::atomic<int> liveBlocks{0};
  std::atomic<int> diagOverlap{0};
  for (long w = 0; w < waves; ++w) {
    std::vector<std::thread> th;
    for (long t = 0; t < T; ++t) {
      auto ops = splitOps(c.p.s("ops" + std::to_string(t)));
      th.emplace_back([&, ops, t, w]() {
        std::vector<char*> mine;
        sbaOps<N>(c, ops, mine, mailbox, 4, nullptr, liveBlocks, (int)(t + 10 * w));
      });
    }
    for (auto& t : th)
      t.join();
  }
  for (auto& m : mailbox) {
    char* p = m.exchange(nullptr);
    if (p) {
      CanaryRef{reinterpret_cast<uint32_t*>(p)}.set(0, 0);
      liveBlocks.fetch_sub(1);
      dispenso::deallocSmallBuffer<N>(p);
    }
  }
  VF_CHECK(c, liveBlocks.load() == 0, "harness-balance", "harness accounting error");
  std::string all;
  for (long t = 0; t < T; ++t)
    all += c.p.s("ops" + std::to_string(t));
  c.nontrivial = all.find('A') != std::string::npos && (all.find('q') != std::string::npos || T >= 2);
  if (all.find('A') != std::string::npos)
    c.cls("central_store_refill_forced");
  if (all.find('x') != std::string::npos)
    c.cls("cross_thread_free");
  (void)diagOverlap;
}
static void runC41(Case& c) {
  switch (c.p.i("N")) {
    case 8:
      return runC41T<8>(c);
    case 16:
      return runC41T<16>(c);
    case 64:
      return runC41T<64>(c);
    case 128:
      return runC41T<128>(c);
    default:
      return runC41T<256>(c);
  }
}

// ------------------------------------------------------------------------------------------------
// C42 PoolAllocator (thread safe) / NoLockPoolAllocator (serial)
// slab -> size, kept in relaxed atomics: readable from any thread in native runs without adding happens-before
// edges of the harness's own (which would hide missing synchronisation in the allocator from TSan)
struct SlabLedger {
  static constexpr int kMax = 256;
  std::atomic<char*> base[kMax];
  std::atomic<size_t> len[kMax];
  std::atomic<int> n{0}, allocCalls{0}, deallocCalls{0}, bad{0};
  SlabLedger() {
    for (int i = 0; i < kMax; ++i) {
      base[i].store(nullptr, std::memory_order_relaxed);
      len[i].store(0, std::memory_order_relaxed);
    }
  }
  void add(char* p, size_t sz) {
    int i = n.fetch_add(1, std::memory_order_relaxed);
    if (i < kMax) {
      len[i].store(sz, std::memory_order_relaxed);
      base[i].store(p, std::memory_order_relaxed);
    }
    allocCalls.fetch_add(1, std::memory_order_relaxed);
  }
  bool remove(char* p) {
    deallocCalls.fetch_add(1, std::memory_order_relaxed);
    int m = std::min(n.load(std::memory_order_relaxed), kMax);
    for (int i = 0; i < m; ++i) {
      char* e = p;
      if (base[i].compare_exchange_strong(e, nullptr, std::memory_order_relaxed))
        return true;
    }
    bad.store(1, std::memory_order_relaxed);
    return false;
  }
  int liveCount() const {
    int m = std::min(n.load(std::memory_order_relaxed), kMax), k = 0;
    for (int i = 0; i < m; ++i)
      if (base[i].load(std::memory_order_relaxed))
        ++k;
    return k;
  }
  // 1: inside a slab at a chunk-multiple offset, 0: inside but misplaced, -1: outside every slab
  int locate(const char* p, size_t chunk) const {
    int m = std::min(n.load(std::memory_order_relaxed), kMax);
    for (int i = 0; i < m; ++i) {
      char* b = base[i].load(std::memory_order_relaxed);
      size_t l = len[i].load(std::memory_order_relaxed);
      if (b && p >= b && p + chunk <= b + l)
        return (size_t)(p - b) % chunk == 0 ? 1 : 0;
    }
    return -1;
  }
};
static void genC42(Rng& r, KV& kv, const Opts&) {
  kv.set("safe", r.range(0, 1));
  long chunk = r.pick<long>({8, 24, 64, 100});
  kv.set("chunk", chunk);
  kv.set("per", r.range(1, 6)); // chunks per slab (slab = per*chunk, + an odd remainder sometimes)
  kv.set("odd", r.pick<long>({0, 0, 3, 17}));
  long T = r.range(1, 4);
  kv.set("T", T);
  for (long t = 0; t < T; ++t) {
    std::string s;
    long n = r.range(2, 14);
    for (long i = 0; i < n; ++i)
      s += r.pick<const char*>({"a", "a", "a", "d", "d"}), s += ",";
    kv.set("ops" + std::to_string(t), s);
  }
  kv.set("clear", r.range(0, 1));
  kv.set("after", r.range(0, 12));
  kv.setu("mp", 600000);
}
template <bool kSafe>
static void runC42T(Case& c) {
  using PA = dispenso::PoolAllocatorT<kSafe>;
  long T = kSafe ? c.p.i("T") : 1;
  size_t chunk = (size_t)c.p.i("chunk");
  size_t slab = chunk * (size_t)c.p.i("per") + (size_t)c.p.i("odd");
  SlabLedger led;
  std::atomic<int> openCalls{0}, overlap{0};
  std::vector<std::vector<char*>> held((size_t)T);
  {
    PA pa(chunk, slab,
          [&led](size_t n) -> void* {
            char* p = static_cast<char*>(calloc(1, n)); // zeroed: no stale canaries from an earlier case of this process
            led.add(p, n);
            return p;
          },
          [&led](void* p) {
            led.remove(static_cast<char*>(p));
            free(p);
          });
    auto checkChunk = [&](char* p) {
      int where = led.locate(p, chunk);
      if (where == 0)
        c.fail("chunk-misplaced", "a chunk does not start at a multiple of chunkSize inside its slab");
      if (where < 0)
        c.fail("chunk-outside-slab", "alloc() returned a chunk that does not lie within any slab obtained from allocFunc");
      uint32_t* w = reinterpret_cast<uint32_t*>(p);
      if (chunk >= 8 && w[0] == 0xC4A27EEDu)
        c.fail("chunk-handed-out-twice", "alloc() returned a chunk that is still live");
      if (chunk >= 8)
        w[0] = 0xC4A27EEDu;
    };
    std::vector<std::thread> th;
    for (long t = 0; t < T; ++t) {
      auto ops = splitOps(c.p.s("ops" + std::to_string(t)));
      th.emplace_back([&, ops, t]() {
        for (auto& op : ops) {
          if (openCalls.fetch_add(1) > 0)
            overlap = 1;
          if (op[0] == 'a') {
            char* p = pa.alloc();
            openCalls.fetch_sub(1);
            checkChunk(p);
            if (chunk >= 8)
              reinterpret_cast<uint32_t*>(p)[1] = (uint32_t)t;
            held[(size_t)t].push_back(p);
          } else {
            openCalls.fetch_sub(1);
            if (held[(size_t)t].empty())
              continue;
            char* p = held[(size_t)t].back();
            held[(size_t)t].pop_back();
            if (chunk >= 8) {
              uint32_t* w = reinterpret_cast<uint32_t*>(p);
              if (w[0] != 0xC4A27EEDu || w[1] != (uint32_t)t)
                c.fail("chunk-overwritten", "a live chunk's canary was overwritten: the chunk overlaps another live chunk");
              w[0] = 0;
            }
            pa.dealloc(p);
          }
          progress();
        }
      });
    }
    for (auto& t : th)
      t.join();
    if (c.p.i("clear")) {
      // precondition: no chunk handed out before clear() is used or freed afterwards
      for (auto& h : held) {
        for (char* p : h)
          if (chunk >= 8)
            reinterpret_cast<uint32_t*>(p)[0] = 0;
        h.clear();
      }
      int slabsBefore = led.liveCount();
      size_t capacity = pa.totalChunkCapacity();
      pa.clear();
      int callsBefore = led.allocCalls.load();
      long after = c.p.i("after");
      std::vector<char*> again;
      for (long i = 0; i < after; ++i) {
        char* p = pa.alloc();
        checkChunk(p);
        again.push_back(p);
        if ((size_t)(i + 1) <= capacity)
          VF_CHECK(c, led.allocCalls.load() == callsBefore, "clear-did-not-reuse-slabs",
                   "after clear(), allocation %ld called allocFunc again although the %d existing slab(s) hold %zu chunks", i + 1, slabsBefore, capacity);
      }
      if ((size_t)after > capacity)
        c.cls("allocated_beyond_existing_slabs_after_clear");
      std::set<char*> uniq(again.begin(), again.end());
      VF_CHECK(c, uniq.size() == again.size(), "chunk-handed-out-twice", "the same chunk was returned twice after clear()");
    }
  }
  VF_CHECK(c, !led.bad.load(), "slab-release", "deallocFunc called with a pointer allocFunc never returned (or twice)");
  VF_CHECK(c, led.liveCount() == 0 && led.allocCalls.load() == led.deallocCalls.load(), "slab-release", "%d slabs were obtained but %d released by the destructor", led.allocCalls.load(),
           led.deallocCalls.load());
  c.nontrivial = overlap.load() || c.classes.count("allocated_beyond_existing_slabs_after_clear");
  if (overlap.load())
    c.cls("alloc/dealloc_calls_overlapped");
}
static void runC42(Case& c) {
  if (c.p.i("safe"))
    runC42T<true>(c);
  else
    runC42T<false>(c);
}

#ifndef VF_E1
// native builds (real threads; used with the TSan / ASan variants): same programs, batch mode
static const vf::Prop kProps[] = {
    {"C33", "cvgrow", genC33, runC33, vf::kBatch, 3000, 100000, "two growth calls overlapped"},
    {"C34", "mpmc", genC34, runC34, vf::kBatch, 3000, 100000, "a push and a pop overlapped and the buffer wrapped at least once"},
    {"C35", "spsc", genC35, runC35, vf::kBatch, 3000, 100000, "a push and a pop overlapped and the buffer wrapped at least once"},
    {"C36", "cld", genC36, runC36, vf::kBatch, 3000, 100000, "the owner's pop and a steal overlapped with exactly one element present"},
    {"C37", "arena", genC37, runC37, vf::kBatch, 3000, 100000, "buffer count not a power of two at the time of the copy, or two grow_by calls overlapped"},
    {"C41", "sba", genC41, runC41, vf::kBatch, 3000, 100000, "a central-store refill was forced while a diagnostics call or a second thread was active"},
    {"C42", "pool", genC42, runC42, vf::kBatch, 3000, 100000, "alloc/dealloc calls overlapped, or more chunks than the existing slabs hold were allocated after clear()"},
};
#else
static const vf::Prop kProps[] = {
    {"C33", "cvgrow", genC33, runC33, vf::kE1, 1500, 120000, "two growth calls overlapped"},
    {"C34", "mpmc", genC34, runC34, vf::kE1, 2500, 250000, "a push and a pop overlapped and the buffer wrapped at least once"},
    {"C35", "spsc", genC35, runC35, vf::kE1, 4000, 250000, "a push and a pop overlapped and the buffer wrapped at least once"},
    {"C36", "cld", genC36, runC36, vf::kE1, 4000, 250000, "the owner's pop and a steal overlapped with exactly one element present"},
    {"C37", "arena", genC37, runC37, vf::kE1, 3000, 80000, "buffer count not a power of two at the time of the copy, or two grow_by calls overlapped"},
    {"C41", "sba", genC41, runC41, vf::kE1, 1500, 80000, "a central-store refill was forced while a diagnostics call or a second thread was active"},
    {"C42", "pool", genC42, runC42, vf::kE1, 3000, 60000, "alloc/dealloc calls overlapped, or more chunks than the existing slabs hold were allocated after clear()"},
};

#endif

int main(int argc, char** argv) {
  return vf::runMain(argc, argv, kProps, (int)(sizeof kProps / sizeof kProps[0]));
}
