// Harness "cvec" (E2 rapidcheck, built plain and with ASan+UBSan): C32 — ConcurrentVector is
// std::vector, sequentially. Stateful model test over two vectors A, B and their std::vector models;
// after every operation: size, contents (index, forward and reverse iteration, front/back), returned
// positions, comparison operators, and the lifetime balance live == |A| + |B|.
#include <common/vrc.h>

#include "tracked.h"

#include <dispenso/concurrent_vector.h>

#include <vector>

using vrc::Outcome;

struct TraitsA {
  static constexpr bool kPreferBuffersInline = false;
  static constexpr dispenso::ConcurrentVectorReallocStrategy kReallocStrategy = dispenso::ConcurrentVectorReallocStrategy::kHalfBufferAhead;
  static constexpr bool kIteratorPreferSpeed = false;
};
struct TraitsB {
  static constexpr bool kPreferBuffersInline = true;
  static constexpr dispenso::ConcurrentVectorReallocStrategy kReallocStrategy = dispenso::ConcurrentVectorReallocStrategy::kFullBufferAhead;
  static constexpr bool kIteratorPreferSpeed = true;
};
struct TraitsC { // the remaining combinations of the three switches that A, B and the default do not cover
  static constexpr bool kPreferBuffersInline = false;
  static constexpr dispenso::ConcurrentVectorReallocStrategy kReallocStrategy = dispenso::ConcurrentVectorReallocStrategy::kAsNeeded;
  static constexpr bool kIteratorPreferSpeed = true;
};
struct TraitsD {
  static constexpr bool kPreferBuffersInline = true;
  static constexpr dispenso::ConcurrentVectorReallocStrategy kReallocStrategy = dispenso::ConcurrentVectorReallocStrategy::kHalfBufferAhead;
  static constexpr bool kIteratorPreferSpeed = false;
};

struct Op {
  int kind, target, a, b, v;
};
struct VCase {
  int traits, elem;
  std::vector<Op> ops;
};
enum {
  kPush, kEmplace, kGrowByVal, kGrowByDef, kGrowByGen, kGrowByRange, kGrowByList, kGrowTo, kGrowToVal, kInsert1, kInsertMove, kInsertN, kInsertRange, kInsertList,
  kErase1, kEraseRange, kResize, kResizeVal, kReserve, kPopBack, kClear, kShrink, kAssignN, kAssignRange, kCopyCtor, kCopyAssign, kMoveCtor, kMoveAssign, kSwap,
  kCompare, kRebuild, kNumKinds
};
static const char* kKindNames[] = {"push_back", "emplace_back", "grow_by(n,v)", "grow_by(n)", "grow_by_generator", "grow_by(range)", "grow_by(list)", "grow_to_at_least(n)",
                                   "grow_to_at_least(n,v)", "insert(pos,v)", "insert(pos,T&&)", "insert(pos,n,v)", "insert(pos,range)", "insert(pos,list)", "erase(pos)",
                                   "erase(range)", "resize(n)", "resize(n,v)", "reserve", "pop_back", "clear", "shrink_to_fit", "assign(n,v)", "assign(range)", "copy-ctor",
                                   "copy-assign", "move-ctor", "move-assign", "swap", "compare", "rebuild-by-ctor"};

static std::string caseText(const VCase& c) {
  std::string s = std::to_string(c.traits) + " " + std::to_string(c.elem) + " |";
  for (auto& o : c.ops)
    s += " " + std::to_string(o.kind) + "," + std::to_string(o.target) + "," + std::to_string(o.a) + "," + std::to_string(o.b) + "," + std::to_string(o.v);
  return s;
}
static VCase caseParse(const std::string& t) {
  VCase c{0, 0, {}};
  size_t bar = t.find('|');
  auto head = vrc::split(t.substr(0, bar), ' ');
  if (head.size() >= 2) {
    c.traits = atoi(head[0].c_str());
    c.elem = atoi(head[1].c_str());
  }
  if (bar != std::string::npos)
    for (auto& tok : vrc::split(t.substr(bar + 1), ' ')) {
      auto f = vrc::split(tok, ',');
      if (f.size() >= 5)
        c.ops.push_back(Op{atoi(f[0].c_str()), atoi(f[1].c_str()), atoi(f[2].c_str()), atoi(f[3].c_str()), atoi(f[4].c_str())});
    }
  return c;
}

template <typename Vec, typename E>
struct Runner {
  using Model = std::vector<int64_t>;
  trk::Box<Vec> vec[2];
  Model model[2];
  bool tracked;
  long opIndex = 0;
  std::string where;

  Outcome fail(const std::string& sig, const std::string& msg) {
    return Outcome::fail(sig, "after op #" + std::to_string(opIndex) + " " + where + ": " + msg);
  }
  static E mk(int64_t v) {
    return trk::Make<E>::of(v);
  }
  const int64_t dv = trk::Make<E>::defaultValue(); // model value of a default-constructed element
  Outcome compare(int t) {
    Vec& v = *vec[t];
    Model& m = model[t];
    if (v.size() != m.size())
      return fail("size-mismatch", "size() = " + std::to_string(v.size()) + ", std::vector has " + std::to_string(m.size()));
    if (v.empty() != m.empty())
      return fail("empty-mismatch", "empty() disagrees with size()");
    for (size_t i = 0; i < m.size(); ++i)
      if (trk::valueOf(v[i]) != m[i])
        return fail("content-mismatch", "element [" + std::to_string(i) + "] = " + std::to_string(trk::valueOf(v[i])) + ", std::vector has " + std::to_string(m[i]));
    size_t i = 0;
    for (auto it = v.begin(); it != v.end(); ++it, ++i) {
      if (i >= m.size() || trk::valueOf(*it) != m[i])
        return fail("iteration-mismatch", "forward iteration differs at position " + std::to_string(i));
    }
    if (i != m.size())
      return fail("iteration-mismatch", "forward iteration visited " + std::to_string(i) + " elements of " + std::to_string(m.size()));
    i = m.size();
    const Vec& cv = v;
    for (auto it = cv.rbegin(); it != cv.rend(); ++it) {
      if (i == 0 || trk::valueOf(*it) != m[i - 1])
        return fail("iteration-mismatch", "reverse iteration differs at position " + std::to_string(i));
      --i;
    }
    if (i != 0)
      return fail("iteration-mismatch", "reverse iteration stopped early");
    if (!m.empty()) {
      if (trk::valueOf(v.front()) != m.front() || trk::valueOf(v.back()) != m.back())
        return fail("front-back-mismatch", "front()/back() differ from std::vector");
      if (trk::valueOf(v.at(m.size() - 1)) != m.back())
        return fail("content-mismatch", "at(size-1) differs");
      if ((size_t)(v.end() - v.begin()) != m.size())
        return fail("iterator-distance", "end() - begin() != size()");
    }
    return Outcome();
  }
  Outcome lifetimes() {
    if (!tracked)
      return Outcome();
    auto& r = trk::reg();
    if (!r.firstError.empty())
      return fail("lifetime-error", r.firstError);
    size_t expect = model[0].size() + model[1].size();
    if (r.live.size() != expect)
      return fail("lifetime-balance", std::to_string(r.live.size()) + " element objects are alive (constructed " + std::to_string(r.constructed) + ", destroyed " +
                                          std::to_string(r.destroyed) + ") but the two vectors hold " + std::to_string(expect) + " elements");
    return Outcome();
  }

  Outcome run(const VCase& c) {
    trk::reg().reset();
    vec[0].emplace();
    vec[1].emplace();
    Outcome res;
    bool multiBucketShrink = false;
    size_t firstCap = vec[0]->default_capacity();
    for (auto& op : c.ops) {
      ++opIndex;
      int t = op.target & 1;
      Vec& v = *vec[t];
      Vec& w = *vec[1 - t];
      Model& m = model[t];
      Model& mw = model[1 - t];
      size_t n = m.size();
      size_t pos = n ? (size_t)((unsigned)op.a % (n + 1)) : 0; // 0..n
      size_t cnt = (size_t)((unsigned)op.b % 70);
      int64_t val = op.v;
      int kind = ((op.kind % kNumKinds) + kNumKinds) % kNumKinds;
      where = std::string(kKindNames[kind]) + "(a=" + std::to_string(op.a) + ",b=" + std::to_string(op.b) + ",v=" + std::to_string(op.v) + ") on " + (t ? "B" : "A") + "[size " +
          std::to_string(n) + "]";
      long retIdx = -1, wantIdx = -1;
      std::vector<E> src;
      switch (kind) {
        case kPush: {
          E e = mk(val);
          retIdx = v.push_back(e) - v.begin();
          m.push_back(val);
          wantIdx = (long)n;
          break;
        }
        case kEmplace:
          retIdx = v.emplace_back(mk(val)) - v.begin();
          m.push_back(val);
          wantIdx = (long)n;
          break;
        case kGrowByVal: {
          E e = mk(val);
          retIdx = v.grow_by(cnt, e) - v.begin();
          m.insert(m.end(), cnt, val);
          wantIdx = (long)n;
          break;
        }
        case kGrowByDef:
          retIdx = v.grow_by(cnt) - v.begin();
          m.insert(m.end(), cnt, dv);
          wantIdx = (long)n;
          break;
        case kGrowByGen: {
          int64_t k = val;
          retIdx = v.grow_by_generator(cnt, [&k]() { return mk(k++); }) - v.begin();
          for (size_t i = 0; i < cnt; ++i)
            m.push_back(val + (int64_t)i);
          wantIdx = (long)n;
          break;
        }
        case kGrowByRange: {
          for (size_t i = 0; i < cnt; ++i)
            src.push_back(mk(val + (int64_t)i));
          retIdx = v.grow_by(src.begin(), src.end()) - v.begin();
          for (size_t i = 0; i < cnt; ++i)
            m.push_back(val + (int64_t)i);
          wantIdx = (long)n;
          src.clear();
          break;
        }
        case kGrowByList:
          retIdx = v.grow_by({mk(val), mk(val + 1), mk(val + 2)}) - v.begin();
          m.push_back(val);
          m.push_back(val + 1);
          m.push_back(val + 2);
          wantIdx = (long)n;
          break;
        case kGrowTo: {
          size_t target = 1 + (size_t)((unsigned)op.b % 90);
          v.grow_to_at_least(target);
          if (m.size() < target)
            m.resize(target, dv);
          break;
        }
        case kGrowToVal: {
          size_t target = 1 + (size_t)((unsigned)op.b % 90);
          E e = mk(val);
          v.grow_to_at_least(target, e);
          if (m.size() < target)
            m.resize(target, val);
          break;
        }
        case kInsert1: {
          E e = mk(val);
          retIdx = v.insert(v.cbegin() + (long)pos, e) - v.begin();
          m.insert(m.begin() + (long)pos, val);
          wantIdx = (long)pos;
          break;
        }
        case kInsertMove:
          retIdx = v.insert(v.cbegin() + (long)pos, mk(val)) - v.begin();
          m.insert(m.begin() + (long)pos, val);
          wantIdx = (long)pos;
          break;
        case kInsertN: {
          size_t k = cnt % 9;
          E e = mk(val);
          retIdx = v.insert(v.cbegin() + (long)pos, k, e) - v.begin();
          m.insert(m.begin() + (long)pos, k, val);
          wantIdx = (long)pos;
          break;
        }
        case kInsertRange: {
          size_t k = cnt % 9;
          std::vector<int64_t> ms;
          for (size_t i = 0; i < k; ++i) {
            src.push_back(mk(val + (int64_t)i));
            ms.push_back(val + (int64_t)i);
          }
          retIdx = v.insert(v.cbegin() + (long)pos, src.begin(), src.end()) - v.begin();
          m.insert(m.begin() + (long)pos, ms.begin(), ms.end());
          wantIdx = (long)pos;
          src.clear();
          break;
        }
        case kInsertList:
          retIdx = v.insert(v.cbegin() + (long)pos, {mk(val), mk(val + 7)}) - v.begin();
          m.insert(m.begin() + (long)pos, {val, val + 7});
          wantIdx = (long)pos;
          break;
        case kErase1: {
          if (n == 0)
            break;
          size_t p = (size_t)((unsigned)op.a % n);
          if (n > firstCap)
            multiBucketShrink = true;
          retIdx = v.erase(v.cbegin() + (long)p) - v.begin();
          m.erase(m.begin() + (long)p);
          wantIdx = (long)p;
          break;
        }
        case kEraseRange: {
          size_t p = pos, q = pos + (n - pos ? (size_t)((unsigned)op.b % (n - pos + 1)) : 0);
          if (n > firstCap && q > p)
            multiBucketShrink = true;
          retIdx = v.erase(v.cbegin() + (long)p, v.cbegin() + (long)q) - v.begin();
          m.erase(m.begin() + (long)p, m.begin() + (long)q);
          wantIdx = (long)p;
          break;
        }
        case kResize: {
          size_t k = (size_t)((unsigned)op.b % 90);
          if (k < n && n > firstCap)
            multiBucketShrink = true;
          v.resize((dispenso::ssize_t)k);
          m.resize(k, dv);
          break;
        }
        case kResizeVal: {
          size_t k = (size_t)((unsigned)op.b % 90);
          if (k < n && n > firstCap)
            multiBucketShrink = true;
          E e = mk(val);
          v.resize((dispenso::ssize_t)k, e);
          m.resize(k, val);
          break;
        }
        case kReserve:
          v.reserve((dispenso::ssize_t)((unsigned)op.b % 300));
          break;
        case kPopBack:
          if (n == 0)
            break;
          v.pop_back();
          m.pop_back();
          break;
        case kClear:
          v.clear();
          m.clear();
          break;
        case kShrink:
          v.shrink_to_fit();
          break;
        case kAssignN: {
          size_t k = cnt % 40;
          E e = mk(val);
          v.assign(k, e);
          m.assign(k, val);
          break;
        }
        case kAssignRange: {
          size_t k = cnt % 40;
          std::vector<int64_t> ms;
          for (size_t i = 0; i < k; ++i) {
            src.push_back(mk(val + 3 * (int64_t)i));
            ms.push_back(val + 3 * (int64_t)i);
          }
          v.assign(src.begin(), src.end());
          m = ms;
          src.clear();
          break;
        }
        case kCopyCtor: { // replace the other vector by a copy of this one
          vec[1 - t].emplace(v);
          mw = m;
          break;
        }
        case kCopyAssign:
          w = v;
          mw = m;
          break;
        case kMoveCtor: { // other = Vec(std::move(this)); this is then re-created empty (moved-from state is unspecified)
          vec[1 - t].emplace(std::move(v));
          mw = m;
          vec[t].emplace();
          m.clear();
          break;
        }
        case kMoveAssign:
          w = std::move(v);
          mw = m;
          vec[t].emplace();
          m.clear();
          break;
        case kSwap:
          if (op.b & 1)
            v.swap(w);
          else
            swap(v, w);
          std::swap(m, mw);
          break;
        case kCompare: {
          bool eq = v == w, ne = v != w, lt = v < w, le = v <= w, gt = v > w, ge = v >= w;
          if (eq != (m == mw) || ne != (m != mw) || lt != (m < mw) || le != (m <= mw) || gt != (m > mw) || ge != (m >= mw))
            return fail("comparison-mismatch", "comparison operators disagree with std::vector");
          break;
        }
        case kRebuild: {
          int form = (unsigned)op.a % 6;
          size_t k = cnt % 50;
          std::vector<int64_t> ms;
          for (size_t i = 0; i < k; ++i) {
            src.push_back(mk(val + (int64_t)i));
            ms.push_back(val + (int64_t)i);
          }
          if (form == 0) {
            vec[t].emplace(k);
            m.assign(k, dv);
          } else if (form == 1) {
            E e = mk(val);
            vec[t].emplace(k, e);
            m.assign(k, val);
          } else if (form == 2) {
            vec[t].emplace(src.begin(), src.end());
            m = ms;
          } else if (form == 3) {
            vec[t].emplace(k, src.begin(), src.end());
            m = ms;
          } else if (form == 4) {
            vec[t].emplace(std::initializer_list<E>{mk(val), mk(val + 1), mk(val + 2), mk(val + 3)});
            m = {val, val + 1, val + 2, val + 3};
          } else {
            vec[t].emplace(k + 1, dispenso::ReserveTag);
            m.clear();
          }
          src.clear();
          break;
        }
        default:
          break;
      }
      res.classes.push_back(kKindNames[kind]);
      if (wantIdx >= 0 && retIdx != wantIdx)
        return fail("returned-position", "returned iterator is at index " + std::to_string(retIdx) + ", std::vector returns index " + std::to_string(wantIdx));
      Outcome o = compare(0);
      if (!o.ok)
        return o;
      o = compare(1);
      if (!o.ok)
        return o;
      o = lifetimes();
      if (!o.ok)
        return o;
    }
    where = "destruction of both vectors";
    vec[0].reset();
    vec[1].reset();
    model[0].clear();
    model[1].clear();
    Outcome o = lifetimes();
    if (!o.ok)
      return o;
    res.nontrivial = multiBucketShrink;
    if (multiBucketShrink)
      res.classes.push_back("erase/resize-down_on_multi-bucket_vector");
    return res;
  }
};

typedef trk::Tracked<0> TSmall;  // 24 bytes: first bucket 10 elements
typedef trk::Tracked<256> TBig;  // > 256 bytes: first bucket 1-2 elements, every few elements crosses a bucket

template <typename Traits>
static Outcome runTraits(const VCase& c) {
  switch (c.elem) {
    case 0: {
      Runner<dispenso::ConcurrentVector<TSmall, Traits>, TSmall> r;
      r.tracked = true;
      return r.run(c);
    }
    case 1: {
      Runner<dispenso::ConcurrentVector<TBig, Traits>, TBig> r;
      r.tracked = true;
      return r.run(c);
    }
    default: {
      Runner<dispenso::ConcurrentVector<std::string, Traits>, std::string> r;
      r.tracked = false;
      return r.run(c);
    }
  }
}
static Outcome runCase(const VCase& c) {
  switch (c.traits) {
    case 0:
      return runTraits<dispenso::DefaultConcurrentVectorTraits>(c);
    case 1:
      return runTraits<TraitsA>(c);
    case 2:
      return runTraits<TraitsB>(c);
    case 3:
      return runTraits<TraitsC>(c);
    default:
      return runTraits<TraitsD>(c);
  }
}

static rc::Gen<VCase> genCase(bool) {
  auto opGen = rc::gen::map(rc::gen::tuple(rc::gen::inRange(0, (int)kNumKinds), rc::gen::inRange(0, 4), rc::gen::inRange(0, 1000), rc::gen::inRange(0, 1000),
                                           rc::gen::inRange(0, 100000)),
                            [](const std::tuple<int, int, int, int, int>& t) {
                              // target A three times out of four so one vector grows across buckets
                              return Op{std::get<0>(t), std::get<1>(t) == 3 ? 1 : 0, std::get<2>(t), std::get<3>(t), std::get<4>(t)};
                            });
  return rc::gen::map(rc::gen::tuple(rc::gen::resize(100, rc::gen::inRange(0, 5)), rc::gen::resize(100, rc::gen::inRange(0, 3)),
                                     rc::gen::container<std::vector<Op>>(rc::gen::resize(100, opGen))),
                      [](const std::tuple<int, int, std::vector<Op>>& t) { return VCase{std::get<0>(t), std::get<1>(t), std::get<2>(t)}; });
}

int main(int argc, char** argv) {
  std::vector<std::unique_ptr<vrc::PropBase>> props;
  props.push_back(vrc::make<VCase>("C32", "model", 400000, 6000000, 80, 400,
                                   "the sequence contains an erase / resize-down on a vector that spans more than its first bucket", genCase, caseText, caseParse, runCase));
  return vrc::runMain(argc, argv, props);
}
