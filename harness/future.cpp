// Harness family "future" (E1 dsched, virtual clock):
//  C18 a Future's functor runs once, every getter sees the same result
//  C19 then() / when_all / when_any respect readiness
//  C20 timed waits: ready => done, timeout => time elapsed; inline run only with the deferred policy
#include <common/vf.h>
#include <dsched/dsched.h>

#include <dispenso/completion_event.h>
#include <dispenso/future.h>
#include <dispenso/schedulable.h>
#include <dispenso/task_set.h>
#include <dispenso/thread_pool.h>

#include <atomic>
#include <memory>
#include <thread>
#include <vector>

using vf::Case;
using vf::KV;
using vf::Opts;
using vf::Rng;

static std::vector<std::string> splitOps(const std::string& s, char sep = ',') {
  std::vector<std::string> out;
  size_t i = 0;
  while (i < s.size()) {
    size_t j = s.find(sep, i);
    if (j == std::string::npos)
      j = s.size();
    if (j > i)
      out.push_back(s.substr(i, j - i));
    i = j + 1;
  }
  return out;
}
static void burn(int n) {
  static std::atomic<int> sink{0};
  for (int i = 0; i < n; ++i)
    sink.fetch_add(1, std::memory_order_relaxed);
}
struct Tagged {
  int tag;
};
struct Res {
  static std::atomic<int> live, built;
  std::unique_ptr<int> heap;
  int tag;
  explicit Res(int t) : heap(new int(t)), tag(t) {
    live.fetch_add(1);
    built.fetch_add(1);
  }
  Res(Res&& o) noexcept : heap(std::move(o.heap)), tag(o.tag) {
    live.fetch_add(1);
  }
  Res(const Res& o) : heap(o.heap ? new int(*o.heap) : nullptr), tag(o.tag) {
    live.fetch_add(1);
  }
  ~Res() {
    live.fetch_sub(1);
  }
};
std::atomic<int> Res::live{0}, Res::built{0};

// all pool workers blocked inside gate tasks (so that only waiters can run a future's functor)
struct Gate {
  dispenso::CompletionEvent open;
  std::atomic<long> arrived{0};
  long need = 0;
  void close(dispenso::ThreadPool& pool, long n) {
    need = n;
    for (long i = 0; i < n; ++i)
      pool.schedule(
          [this]() {
            arrived.fetch_add(1);
            open.wait();
          },
          dispenso::ForceQueuingTag());
    while (arrived.load() < need)
      dsched_sleep_ns(2000);
  }
  void release() {
    open.notify();
  }
};

enum { kPool, kTaskSet, kCts, kImmediate, kNewThread };
static const char* kSchedNames[] = {"ThreadPool", "TaskSet", "ConcurrentTaskSet", "ImmediateInvoker", "NewThreadInvoker"};

// ------------------------------------------------------------------------------------------------
// C18
static void genC18(Rng& r, KV& kv, const Opts&) {
  kv.set("n", r.range(1, 2));
  kv.set("sched", r.range(0, 4));
  kv.set("async", r.range(0, 1));
  kv.set("deferred", r.range(0, 1));
  kv.set("outcome", r.pick<long>({0, 0, 1})); // 0 value, 1 throws
  kv.set("gated", r.chance(1, 3) ? 1L : 0L);
  kv.set("dropEarly", r.range(0, 1));
  long k = r.range(1, 3);
  kv.set("k", k);
  for (long t = 0; t < k; ++t) {
    std::string s;
    long n = r.range(1, 4);
    for (long i = 0; i < n; ++i)
      s += r.pick<const char*>({"g", "g", "w", "f", "u", "c", "r"}), s += ",";
    kv.set("ops" + std::to_string(t), s);
  }
  kv.set("burn", r.range(0, 12));
  kv.set("dur", r.pick<long>({0, 1, 500, 50000, 2000000})); // ns, for wait_for / wait_until
  kv.setu("mp", 600000);
  kv.setu("fp", 400000);
}
static void runC18(Case& c) {
  long n = c.p.i("n"), sched = c.p.i("sched"), k = c.p.i("k");
  bool gated = c.p.i("gated") != 0 && (sched == kPool || sched == kTaskSet || sched == kCts);
  std::launch ap = c.p.i("async") ? std::launch::async : dispenso::kNotAsync;
  std::launch dp = c.p.i("deferred") ? std::launch::deferred : dispenso::kNotDeferred;
  bool throws = c.p.i("outcome") == 1;
  int b = (int)c.p.i("burn");
  long dur = c.p.i("dur");
  Res::live = 0;
  Res::built = 0;
  std::atomic<int> runs{0}, done{0}, runnersOverlap{0};
  std::atomic<const void*> addr{nullptr};
  std::atomic<int> getters{0}, waitersOpen{0}, ranOnWaiter{0};
  std::atomic<int> functorTid{-1};
  {
    Gate gate; // declared before the pool: outlives every gate task
    dispenso::ThreadPool pool((size_t)n);
    if (gated)
      gate.close(pool, n);
    {
      dispenso::TaskSet ts(pool);
      dispenso::ConcurrentTaskSet cts(pool);
      auto fn = [&]() -> Res {
        int r0 = runs.fetch_add(1);
        if (r0 != 0)
          runnersOverlap = 1;
        functorTid = dsched_tid();
        burn(b);
        dsched_progress();
        if (throws) {
          done = 1;
          throw Tagged{77};
        }
        Res res(42);
        done = 1;
        return res;
      };
      dispenso::Future<Res> f;
      switch (sched) {
        case kPool:
          f = dispenso::Future<Res>(std::move(fn), pool, ap, dp);
          break;
        case kTaskSet:
          f = dispenso::Future<Res>(std::move(fn), ts, ap, dp);
          break;
        case kCts:
          f = dispenso::Future<Res>(std::move(fn), cts, ap, dp);
          break;
        case kImmediate:
          f = dispenso::Future<Res>(std::move(fn), dispenso::kImmediateInvoker, ap, dp);
          break;
        default:
          f = dispenso::Future<Res>(std::move(fn), dispenso::kNewThreadInvoker, ap, dp);
          break;
      }
      std::vector<dispenso::Future<Res>> copies;
      for (long t = 0; t < k; ++t)
        copies.push_back(f);
      if (c.p.i("dropEarly"))
        f = dispenso::Future<Res>();
      std::vector<std::thread> th;
      for (long t = 0; t < k; ++t) {
        auto ops = splitOps(c.p.s("ops" + std::to_string(t)));
        th.emplace_back([&, ops, t]() {
          dispenso::Future<Res> fc = std::move(copies[(size_t)t]);
          int me = dsched_tid();
          for (auto& op : ops) {
            waitersOpen.fetch_add(1);
            switch (op[0]) {
              case 'g':
                getters.fetch_add(1);
                try {
                  const Res& r = fc.get();
                  VF_CHECK(c, done.load() == 1, "get-before-done", "get() returned before the functor finished");
                  VF_CHECK(c, !throws, "get-swallowed-exception", "get() returned a value although the functor threw");
                  VF_CHECK(c, r.tag == 42 && r.heap && *r.heap == 42, "result-corrupt", "get() returned a result that is not the functor's value");
                  const void* exp = nullptr;
                  if (!addr.compare_exchange_strong(exp, &r))
                    VF_CHECK(c, exp == &r, "different-result-objects", "two get() calls returned different result objects");
                } catch (const Tagged& t) {
                  VF_CHECK(c, throws && t.tag == 77, "phantom-exception", "get() threw an exception the functor did not throw");
                  VF_CHECK(c, done.load() == 1, "get-before-done", "get() rethrew before the functor finished");
                }
                break;
              case 'w':
                fc.wait();
                VF_CHECK(c, done.load() == 1, "wait-before-done", "wait() returned before the functor finished");
                break;
              case 'f': {
                auto st = fc.wait_for(std::chrono::nanoseconds(dur));
                if (st == std::future_status::ready)
                  VF_CHECK(c, done.load() == 1, "ready-before-done", "wait_for reported ready before the functor finished");
                break;
              }
              case 'u': {
                auto st = fc.wait_until(std::chrono::steady_clock::now() + std::chrono::nanoseconds(dur));
                if (st == std::future_status::ready)
                  VF_CHECK(c, done.load() == 1, "ready-before-done", "wait_until reported ready before the functor finished");
                break;
              }
              case 'c': {
                dispenso::Future<Res> c2 = fc;
                dispenso::Future<Res> c3 = std::move(c2);
                (void)c3;
                break;
              }
              default:
                if (fc.is_ready())
                  VF_CHECK(c, done.load() == 1, "ready-before-done", "is_ready() true before the functor finished");
                break;
            }
            waitersOpen.fetch_sub(1);
            if (functorTid.load() == me)
              ranOnWaiter = 1;
            dsched_progress();
          }
        });
      }
      for (auto& t : th)
        t.join();
      if (gated)
        gate.release();
      ts.wait();
      cts.wait();
      f = dispenso::Future<Res>();
      copies.clear();
    }
    c.phase = "pool-dtor";
  }
  // NewThreadInvoker threads are tracked by the library; give a detached runner the chance to finish
  // (the thread may not even have started the functor yet when no waiter blocked on the future)
  for (int spin = 0; spin < 4000 && sched == kNewThread && done.load() == 0; ++spin)
    dsched_sleep_ns(5000);
  // a NewThreadInvoker thread still has to store the result and drop its reference after the functor returned
  for (int spin = 0; spin < 4000 && sched == kNewThread && Res::live.load() != 0; ++spin)
    dsched_sleep_ns(5000);
  VF_CHECK(c, runs.load() <= 1, "functor-ran-twice", "the functor ran %d times", runs.load());
  VF_CHECK(c, runs.load() == 1, "functor-never-ran", "the functor never ran although it was scheduled to %s and the scheduler has been torn down", kSchedNames[sched]);
  VF_CHECK(c, !runnersOverlap.load(), "functor-ran-twice", "two executions of the functor overlapped");
  if (done.load() == 1)
    VF_CHECK(c, Res::live.load() == 0, "result-lifetime", "%d result object(s) still alive after every Future copy was destroyed (built %d)", Res::live.load(), Res::built.load());
  c.nontrivial = ranOnWaiter.load() || (getters.load() >= 2);
  if (ranOnWaiter.load())
    c.cls("functor_ran_on_a_waiter");
  if (getters.load() >= 2)
    c.cls(">=2_get_calls");
  c.cls(std::string("sched:") + kSchedNames[sched]);
  if (gated)
    c.cls("pool_gated");
}

// ------------------------------------------------------------------------------------------------
// C19
static void genC19(Rng& r, KV& kv, const Opts&) {
  kv.set("n", r.range(1, 2));
  kv.set("form", r.pick<long>({0, 0, 0, 1, 2, 3, 4, 5})); // 0 then-chain, 1 when_all(iter), 2 when_all(tuple), 3 when_any(iter), 4 when_all(taskset, iter), 5 when_any(cts, tuple)
  kv.set("inputs", r.range(0, 4));
  kv.set("chain", r.range(1, 4));
  kv.set("sched", r.pick<long>({0, 0, 1, 2, 3}));
  kv.set("async", r.range(0, 1));
  kv.set("delay", r.range(0, 60)); // points the registering thread burns before then()/when_*()
  kv.set("burn", r.range(0, 20));  // points an input functor burns
  kv.set("gated", r.chance(1, 4) ? 1L : 0L);
  kv.set("waitFirst", r.range(0, 1)); // then-chain on a task set: the set's wait() comes before the final get()
  kv.setu("mp", 800000);
  kv.setu("fp", 400000);
}
static void runC19(Case& c) {
  long n = c.p.i("n"), form = c.p.i("form"), inputs = c.p.i("inputs"), chain = c.p.i("chain"), sched = c.p.i("sched");
  std::launch ap = c.p.i("async") ? std::launch::async : dispenso::kNotAsync;
  int delay = (int)c.p.i("delay"), b = (int)c.p.i("burn");
  bool gated = c.p.i("gated") != 0;
  std::atomic<int> overlapSeen{0};
  {
    Gate gate; // declared before the pool: outlives every gate task
    dispenso::ThreadPool pool((size_t)n);
    // gated pools would starve antecedents that nobody waits on: only for the chain form, where the
    // final get() pulls every link inline
    gated = gated && form == 0 && sched == 0;
    if (gated)
      gate.close(pool, n);
    {
      dispenso::TaskSet ts(pool);
      dispenso::ConcurrentTaskSet cts(pool);
      if (form == 0) {
        std::atomic<int> antDone{0};
        std::vector<std::atomic<int>> linkRuns((size_t)chain), linkDone((size_t)chain);
        for (auto& x : linkRuns)
          x = 0;
        for (auto& x : linkDone)
          x = 0;
        std::atomic<int> inThen{0};
        dispenso::Future<int> cur(
            [&]() {
              burn(b);
              if (inThen.load())
                overlapSeen = 1;
              antDone = 1;
              return 1;
            },
            pool, std::launch::async);
        burn(delay);
        for (long i = 0; i < chain; ++i) {
          auto body = [&, i](dispenso::Future<int>&& prev) {
            int r = linkRuns[(size_t)i].fetch_add(1);
            if (r != 0)
              c.fail("continuation-ran-twice", "continuation " + std::to_string(i) + " ran more than once");
            if (!prev.is_ready())
              c.fail("continuation-before-ready", "continuation " + std::to_string(i) + " started before its antecedent was ready");
            if (i == 0 ? !antDone.load() : !linkDone[(size_t)i - 1].load())
              c.fail("continuation-before-ready", "continuation " + std::to_string(i) + " started before its antecedent's functor finished");
            int v = prev.get();
            burn(b / 2);
            linkDone[(size_t)i] = 1;
            dsched_progress();
            return v + 1;
          };
          inThen.fetch_add(1);
          dispenso::Future<int> next;
          if (sched == 0)
            next = cur.then(body, pool, ap);
          else if (sched == 1)
            next = cur.then(body, ts, ap);
          else if (sched == 2)
            next = cur.then(body, cts, ap);
          else
            next = cur.then(body, dispenso::kImmediateInvoker, ap);
          inThen.fetch_sub(1);
          cur = next;
          burn(delay / 3);
        }
        if (c.p.i("waitFirst") && (sched == 1 || sched == 2)) {
          // continuations registered on a task set are the set's work from the moment then() returns, even while
          // their antecedent (which runs on the pool, outside the set) is not ready yet: wait() covers them
          if (sched == 1)
            ts.wait();
          else
            cts.wait();
          for (long i = 0; i < chain; ++i)
            VF_CHECK(c, linkDone[(size_t)i].load() == 1, "taskset-wait-continuation-pending",
                     "the task set's wait() returned although continuation %ld, registered on the set with then(), had not finished", i);
          VF_CHECK(c, cur.is_ready(), "taskset-wait-result-not-ready", "taskSet.wait() returned but the last continuation's future is not ready");
          c.cls("set_wait_before_get_on_then_chain");
        }
        int v = cur.get();
        VF_CHECK(c, v == 1 + chain, "chain-value", "chain of %ld continuations produced %d", chain, v);
        for (long i = 0; i < chain; ++i)
          VF_CHECK(c, linkRuns[(size_t)i].load() == 1, "continuation-not-run", "continuation %ld ran %d times by the time the last get() returned", i, linkRuns[(size_t)i].load());
        if (gated)
          gate.release();
        ts.wait();
        cts.wait();
      } else {
        std::vector<std::atomic<int>> inDone((size_t)std::max<long>(inputs, 1));
        for (auto& x : inDone)
          x = 0;
        std::atomic<int> registering{0};
        std::vector<dispenso::Future<int>> in;
        for (long i = 0; i < inputs; ++i)
          in.emplace_back(
              [&, i]() {
                burn(b + (int)i * 3);
                if (registering.load())
                  overlapSeen = 1;
                inDone[(size_t)i] = 1;
                dsched_progress();
                return (int)i * 10;
              },
              pool, std::launch::async);
        burn(delay);
        registering = 1;
        if (form == 1 || form == 4) {
          dispenso::Future<std::vector<dispenso::Future<int>>> all = form == 1 ? dispenso::when_all(in.begin(), in.end()) : dispenso::when_all(ts, in.begin(), in.end());
          registering = 0;
          if (form == 4) {
            ts.wait();
            VF_CHECK(c, all.is_ready(), "taskset-wait-result-not-ready", "taskSet.wait() returned but the when_all result future is not ready");
          }
          const auto& vec = all.get();
          VF_CHECK(c, (long)vec.size() == inputs, "when_all-size", "when_all result holds %zu futures for %ld inputs", vec.size(), inputs);
          for (long i = 0; i < inputs; ++i) {
            VF_CHECK(c, inDone[(size_t)i].load() == 1, "when_all-ready-early", "when_all result became ready before input %ld finished", i);
            VF_CHECK(c, vec[(size_t)i].is_ready() && vec[(size_t)i].get() == (int)i * 10, "when_all-order", "when_all result does not hold input %ld at position %ld", i, i);
          }
        } else if (form == 2) {
          if (inputs >= 3) {
            auto all = dispenso::when_all(in[0], in[1], in[2]);
            registering = 0;
            const auto& tup = all.get();
            VF_CHECK(c, inDone[0].load() && inDone[1].load() && inDone[2].load(), "when_all-ready-early", "tuple when_all ready before all three inputs finished");
            VF_CHECK(c, std::get<0>(tup).get() == 0 && std::get<1>(tup).get() == 10 && std::get<2>(tup).get() == 20, "when_all-order", "tuple when_all holds inputs out of order");
          } else if (inputs >= 1) {
            auto all = dispenso::when_all(in[0]);
            registering = 0;
            const auto& tup = all.get();
            VF_CHECK(c, inDone[0].load() == 1, "when_all-ready-early", "singleton when_all ready before its input finished");
            VF_CHECK(c, std::get<0>(tup).get() == 0, "when_all-order", "singleton when_all holds the wrong input");
          }
          registering = 0;
        } else if (form == 3 || form == 5) {
          if (inputs >= 1) {
            dispenso::Future<size_t> any;
            if (form == 3)
              any = dispenso::when_any(in.begin(), in.end());
            else if (inputs >= 2)
              any = dispenso::when_any(cts, in[0], in[1]);
            else
              any = dispenso::when_any(cts, in.begin(), in.end());
            registering = 0;
            if (form == 5) {
              cts.wait();
              VF_CHECK(c, any.is_ready(), "taskset-wait-result-not-ready", "taskSet.wait() returned but the when_any result future is not ready");
            }
            size_t idx = any.get();
            size_t lim = form == 5 && inputs >= 2 ? 2 : (size_t)inputs;
            VF_CHECK(c, idx < lim, "when_any-index", "when_any returned index %zu for %zu inputs", idx, lim);
            VF_CHECK(c, inDone[idx].load() == 1 && in[idx].is_ready(), "when_any-not-ready", "when_any designated input %zu which is not ready", idx);
          }
          registering = 0;
        }
        for (auto& f : in)
          f.wait();
        ts.wait();
        cts.wait();
      }
    }
    c.phase = "pool-dtor";
  }
  c.nontrivial = overlapSeen.load() != 0;
  if (overlapSeen.load())
    c.cls("registration_overlapped_input_completion");
  c.cls("form:" + std::to_string(form));
}

// ------------------------------------------------------------------------------------------------
// C20
static void genC20(Rng& r, KV& kv, const Opts&) {
  kv.set("kind", r.range(0, 3)); // 0 event.waitFor 1 event.waitUntil 2 future.wait_for 3 future.wait_until
  kv.set("req", r.pick<long>({-5, 0, 1, 999, 1000, 150000, 2000000, 3000000000L}));       // requested timeout, ns
  kv.set("notify", r.pick<long>({-1, 0, 1, 900, 1100, 149000, 151000, 1999000, 2500000})); // when the notifier fires (virtual ns after start), -1 never
  kv.set("rep", r.range(0, 2));      // duration representation: ns / us-double / ms
  kv.set("clock", r.range(0, 1));    // wait_until: steady / system
  kv.set("async", r.range(0, 1));
  kv.set("deferred", r.range(0, 1));
  kv.set("viaAsync", r.range(0, 1)); // create through dispenso::async(pool, policy, f) instead of the constructor
  kv.set("sp", r.pick<long>({0, 0, 4, 20})); // spurious futex returns
  if (r.chance(1, 8)) {
    // "wait (practically) for ever" idioms: relative timeouts of centuries, in hours. The wait must simply block until
    // completion; a timeout can only be reported after that much virtual time
    kv.set("hugeh", r.pick<long>({2628000, 8760000, 87600000})); // 300, 1000, 10000 years
    kv.set("kind", r.pick<long>({0, 2}));
    if (kv.i("notify") < 0)
      kv.set("notify", 900L);
  }
  kv.setu("mp", 300000);
}
template <typename W>
static bool timedWait(Case& c, W& w, bool until, long req) {
  long rep = c.p.i("rep");
  if (!until && c.p.i("hugeh", 0) > 0)
    return w(std::chrono::hours(c.p.i("hugeh")));
  if (!until) {
    if (rep == 0)
      return w(std::chrono::nanoseconds(req));
    if (rep == 1)
      return w(std::chrono::duration<double, std::micro>((double)req / 1000.0));
    return w(std::chrono::duration<double, std::milli>((double)req / 1e6));
  }
  return false;
}
static void runC20(Case& c) {
  long kind = c.p.i("kind"), req = c.p.i("req"), notifyAt = c.p.i("notify");
  bool isFuture = kind >= 2;
  std::atomic<int> completeStarted{0}, completeDone{0}, functorTid{-1};
  uint64_t t0 = dsched_now();
  // tolerance: the implementation converts to double seconds and truncates to whole nanoseconds
  auto checkOutcome = [&](bool ready, uint64_t tCall, const char* what) {
    uint64_t tRet = dsched_now();
    if (ready) {
      VF_CHECK(c, completeStarted.load() == 1, "ready-before-complete", "%s reported completion before notify()/the functor had even started", what);
    } else if (c.p.i("hugeh", 0) > 0) {
      uint64_t elapsed = tRet - tCall;
      VF_CHECK(c, elapsed > 3600ull * 1000000000ull * 24 * 365, "timeout-early", "%s reported a timeout after %llu ns of virtual time, %ld hours were requested", what,
               (unsigned long long)elapsed, c.p.i("hugeh"));
    } else if (req > 0) {
      uint64_t elapsed = tRet - tCall;
      uint64_t need = (uint64_t)req;
      uint64_t tol = 2 + need / 1000000000000ull;
      VF_CHECK(c, elapsed + tol >= need, "timeout-early", "%s reported a timeout after %llu ns of virtual time, %ld ns were requested", what, (unsigned long long)elapsed, req);
    } else {
      VF_CHECK(c, completeDone.load() == 0 || true, "x", "x");
    }
    if (!ready && completeDone.load() == 1 && tRet > tCall) {
      // completed before the call even started and still reported timeout?
    }
  };
  if (!isFuture) {
    dispenso::CompletionEvent ev;
    std::thread nt([&]() {
      if (notifyAt < 0)
        return;
      dsched_sleep_ns((uint64_t)notifyAt);
      completeStarted = 1;
      ev.notify();
      completeDone = 1;
    });
    int doneBefore = completeDone.load();
    uint64_t tCall = dsched_now();
    bool ready;
    if (kind == 0) {
      auto w = [&](auto d) { return ev.waitFor(d); };
      ready = timedWait(c, w, false, req);
    } else if (c.p.i("clock") == 0)
      ready = ev.waitUntil(std::chrono::steady_clock::now() + std::chrono::nanoseconds(req));
    else
      ready = ev.waitUntil(std::chrono::system_clock::now() + std::chrono::nanoseconds(req));
    checkOutcome(ready, tCall, kind == 0 ? "CompletionEvent::waitFor" : "CompletionEvent::waitUntil");
    if (!ready)
      VF_CHECK(c, doneBefore == 0, "timeout-although-complete", "timed wait reported a timeout although notify() had returned before the call");
    nt.join();
    if (notifyAt >= 0)
      VF_CHECK(c, ev.completed(), "not-completed", "completed() false after notify()");
  } else {
    bool deferred = c.p.i("deferred") != 0, async = c.p.i("async") != 0, viaAsync = c.p.i("viaAsync") != 0;
    int mainTid = dsched_tid();
    Gate gate; // declared before the pool: outlives every gate task
    dispenso::ThreadPool pool(1);
    gate.close(pool, 1); // the only worker is busy until `notifyAt`: before that only the waiter could run the functor
    std::thread opener([&]() {
      if (notifyAt >= 0)
        dsched_sleep_ns((uint64_t)notifyAt);
      else
        dsched_sleep_ns(20000000ull);
      gate.release();
    });
    auto fn = [&]() {
      completeStarted = 1;
      functorTid = dsched_tid();
      burn(3);
      completeDone = 1;
      return 5;
    };
    dispenso::Future<int> f;
    std::launch pol = (async ? std::launch::async : dispenso::kNotAsync) | (deferred ? std::launch::deferred : dispenso::kNotDeferred);
    if (viaAsync)
      f = dispenso::async(pool, pol, fn);
    else
      f = dispenso::Future<int>(std::move(fn), pool, async ? std::launch::async : dispenso::kNotAsync, deferred ? std::launch::deferred : dispenso::kNotDeferred);
    uint64_t tCall = dsched_now();
    std::future_status st;
    if (kind == 2) {
      auto w = [&](auto d) { return f.wait_for(d) == std::future_status::ready; };
      st = timedWait(c, w, false, req) ? std::future_status::ready : std::future_status::timeout;
    } else if (c.p.i("clock") == 0)
      st = f.wait_until(std::chrono::steady_clock::now() + std::chrono::nanoseconds(req));
    else
      st = f.wait_until(std::chrono::system_clock::now() + std::chrono::nanoseconds(req));
    bool ready = st == std::future_status::ready;
    if (ready)
      VF_CHECK(c, completeDone.load() == 1, "ready-before-complete", "future timed wait reported ready before the functor finished");
    checkOutcome(ready, tCall, kind == 2 ? "Future::wait_for" : "Future::wait_until");
    if (functorTid.load() == mainTid) {
      c.cls("functor_ran_on_the_timed_waiter");
      // the constructor form inlines under overload when not async (documented); the timed wait itself may
      // only run a not-started functor if the deferred policy was given
      bool ranDuringWait = true;
      (void)ranDuringWait;
      if (!deferred && async)
        c.fail("inline-run-without-deferred", std::string(viaAsync ? "async(pool, policy, f)" : "Future(f, pool, async, notDeferred)") +
                   ": the timed wait ran the not-yet-started functor on the waiting thread although the deferred policy was not given");
    }
    f.wait();
    opener.join();
    (void)t0;
  }
  bool near = notifyAt >= 0 && req > 0 && (notifyAt > req ? notifyAt - req : req - notifyAt) * 10 <= req;
  c.nontrivial = near || c.p.i("sp") != 0;
  if (near)
    c.cls("notification_near_deadline");
  if (c.p.i("sp"))
    c.cls("spurious_returns_enabled");
  c.cls("kind:" + std::to_string(kind));
}

static const vf::Prop kProps[] = {
    {"C18", "fut", genC18, runC18, vf::kE1, 6000, 200000, "the functor ran on a waiting thread, or at least two get() calls were made"},
    {"C19", "then", genC19, runC19, vf::kE1, 6000, 200000, "a then()/when_all()/when_any() registration overlapped the completion of an input"},
    {"C20", "timed", genC20, runC20, vf::kE1, 10000, 300000, "the notification fell within 10% of the deadline, or spurious futex returns were injected"},
};

int main(int argc, char** argv) {
  return vf::runMain(argc, argv, kProps, (int)(sizeof kProps / sizeof kProps[0]));
}
