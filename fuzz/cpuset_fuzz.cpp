// libFuzzer target (engine E3): the two text parsers behind CpuSet's topology discovery, with semantic oracles inside.
//   mode 0  parseLinuxCpuList on raw bytes: never crashes; on well-formed lists equals the strict reference parser
//   mode 1  parseCacheGroupsFromTopologySpec on raw bytes: clean handling + structural invariants of the result,
//           and buildGroupsFromCacheTopology on whatever was parsed (clean handling, output cpus come from the input)
//   mode 2  a topology document built from the bytes by a small grammar (nested groups, optional cache-level, own cpu
//           lists, children): the parser must return exactly the groups of the requested level, in document order ids
// Build: clang++ -fsanitize=fuzzer,address,undefined (bin/vbuild.py variant "fuzz"). Counters are dumped to the file
// named by VF_FUZZ_STATS at exit and before a trap (a trap skips atexit).
#include <dispenso/cpu_set.h>

#include <fuzzer/FuzzedDataProvider.h>

#include <algorithm>
#include <cstdio>
#include <cstdlib>
#include <cstring>
#include <set>
#include <string>
#include <vector>

namespace {
struct Stats {
  unsigned long runs = 0, mode[3] = {0, 0, 0}, wellFormedLists = 0, nonEmptyLists = 0, rawXmlWithGroups = 0, structured = 0, structuredNested = 0,
                structuredMatches = 0;
} g;
void dumpStats() {
  const char* p = getenv("VF_FUZZ_STATS");
  if (!p)
    return;
  FILE* f = fopen(p, "w");
  if (!f)
    return;
  fprintf(f,
          "{\"runs\":%lu,\"mode_cpulist\":%lu,\"mode_xml_raw\":%lu,\"mode_xml_structured\":%lu,\"well_formed_lists\":%lu,\"non_empty_lists\":%lu,"
          "\"raw_xml_yielding_groups\":%lu,\"structured_docs\":%lu,\"structured_docs_nested\":%lu,\"structured_docs_with_matching_group\":%lu}\n",
          g.runs, g.mode[0], g.mode[1], g.mode[2], g.wellFormedLists, g.nonEmptyLists, g.rawXmlWithGroups, g.structured, g.structuredNested, g.structuredMatches);
  fclose(f);
}
[[noreturn]] void violation(const char* sig, const std::string& what, const std::string& input) {
  fprintf(stderr, "VF-FUZZ-VIOLATION sig=%s what=%s\ninput<<<%s>>>\n", sig, what.c_str(), input.c_str());
  dumpStats();
  __builtin_trap();
}

constexpr int kSetSize = CPU_SETSIZE;
// strict reference for CPU lists:  (tok(,tok)*)?\n?  with tok = D+ | D+-D+ , ids <= 2^20 (the parser's documented clamp)
bool strictParse(const std::string& s, std::set<int>& out) {
  std::string t = s;
  if (!t.empty() && t.back() == '\n')
    t.pop_back();
  if (t.empty())
    return true;
  size_t i = 0;
  while (true) {
    auto num = [&](long& v) {
      size_t st = i;
      v = 0;
      while (i < t.size() && isdigit((unsigned char)t[i]) && i - st < 9) {
        v = v * 10 + (t[i] - '0');
        ++i;
      }
      return i > st && (i >= t.size() || !isdigit((unsigned char)t[i]));
    };
    long lo, hi;
    if (!num(lo))
      return false;
    if (i < t.size() && t[i] == '-') {
      ++i;
      if (!num(hi))
        return false;
      if (lo > (1 << 20) || hi > (1 << 20))
        return false;
      for (long k = lo; k <= hi && k < kSetSize; ++k)
        out.insert((int)k);
    } else {
      if (lo > (1 << 20))
        return false;
      if (lo < kSetSize)
        out.insert((int)lo);
    }
    if (i == t.size())
      return true;
    if (t[i] != ',')
      return false;
    ++i;
    if (i == t.size())
      return false;
  }
}
std::string setStr(const std::set<int>& s) {
  std::string o = "{";
  for (int v : s)
    o += std::to_string(v) + ",";
  return o + "}";
}

void cpulist(const std::string& doc) {
  if (doc.find('\0') != std::string::npos)
    return; // the API takes a C string
  dispenso::CpuSet got = dispenso::detail::parseLinuxCpuList(doc.c_str());
  if (got.count() < 0 || got.count() > kSetSize)
    violation("cpulist-count", "count() out of range", doc);
  std::set<int> want;
  if (strictParse(doc, want)) {
    ++g.wellFormedLists;
    if (!want.empty())
      ++g.nonEmptyLists;
    std::set<int> have;
    for (int i = 0; i < kSetSize; ++i)
      if (got.contains(i))
        have.insert(i);
    if (have != want)
      violation("cpulist-mismatch", "parsed " + setStr(have) + ", the list denotes " + setStr(want), doc);
  }
}

void checkGroups(const std::vector<dispenso::CacheGroup>& gs, const std::string& doc) {
  std::set<int> ids;
  for (size_t i = 0; i < gs.size(); ++i) {
    if (gs[i].cpus.empty())
      violation("xml-empty-group", "a cache group without cpus was returned", doc);
    for (int c : gs[i].cpus)
      if (c < 0)
        violation("xml-negative-cpu", "negative cpu id", doc);
    if (i && gs[i - 1].cpus.front() > gs[i].cpus.front())
      violation("xml-unsorted", "groups not sorted by first cpu id", doc);
    if (gs[i].cacheId < 0 || gs[i].cacheId >= (int)gs.size() || !ids.insert(gs[i].cacheId).second)
      violation("xml-cache-ids", "cache ids are not a permutation of 0..n-1", doc);
  }
}

void xmlRaw(const std::string& doc, int cacheIndex, int maxGroup) {
  auto a = dispenso::detail::parseCacheGroupsFromTopologySpec(doc, cacheIndex);
  auto b = dispenso::detail::parseCacheGroupsFromTopologySpec(doc, cacheIndex);
  checkGroups(a, doc);
  if (a.size() != b.size())
    violation("xml-nondeterministic", "two parses of the same document differ", doc);
  if (!a.empty())
    ++g.rawXmlWithGroups;
  auto l2 = dispenso::detail::parseCacheGroupsFromTopologySpec(doc, 2);
  auto l3 = dispenso::detail::parseCacheGroupsFromTopologySpec(doc, 3);
  std::set<int> in;
  for (auto& x : l2)
    for (int c : x.cpus)
      in.insert(c);
  auto tg = dispenso::detail::buildGroupsFromCacheTopology(l2, l3, maxGroup);
  for (auto& t : tg)
    for (int c : t.cpus)
      if (!in.count(c))
        violation("group-foreign-cpu", "a thread group contains a cpu that is in no L2 group", doc);
}

struct GNode {
  int level; // -1: attribute absent
  std::vector<long> cpus;
  bool hasCpu;
  std::vector<GNode> kids;
};
GNode genNode(FuzzedDataProvider& f, int depth) {
  GNode n;
  n.level = f.ConsumeIntegralInRange<int>(-1, 4);
  n.hasCpu = f.ConsumeIntegralInRange<int>(0, 5) != 0;
  int nc = n.hasCpu ? f.ConsumeIntegralInRange<int>(0, 5) : 0;
  for (int i = 0; i < nc; ++i) {
    int k = f.ConsumeIntegralInRange<int>(0, 20);
    long v = k == 0 ? -(long)f.ConsumeIntegralInRange<int>(1, 9) : k == 1 ? (1l << 20) + f.ConsumeIntegralInRange<int>(-1, 2) : k == 2 ? 1023 + f.ConsumeIntegralInRange<int>(0, 2)
                                                                                                                                    : f.ConsumeIntegralInRange<int>(0, 300);
    n.cpus.push_back(v);
  }
  int nk = depth < 3 ? f.ConsumeIntegralInRange<int>(0, 3) : 0;
  for (int i = 0; i < nk; ++i)
    n.kids.push_back(genNode(f, depth + 1));
  return n;
}
void emit(const GNode& n, FuzzedDataProvider& f, std::string& o, int depth) {
  std::string ind((size_t)depth, ' ');
  o += ind + "<group level=\"" + std::to_string(depth) + "\"";
  if (n.level >= 0)
    o += " cache-level=\"" + std::to_string(n.level) + "\"";
  o += f.ConsumeBool() ? ">\n" : " >";
  if (n.hasCpu) {
    o += ind + " <cpu count=\"" + std::to_string(n.cpus.size()) + "\" mask=\"f,0\">";
    for (size_t i = 0; i < n.cpus.size(); ++i)
      o += (i ? (f.ConsumeBool() ? ", " : ",") : "") + std::to_string(n.cpus[i]);
    o += "</cpu>\n";
  }
  if (!n.kids.empty()) {
    o += ind + " <children>\n";
    for (auto& k : n.kids)
      emit(k, f, o, depth + 1);
    o += ind + " </children>\n";
  }
  o += ind + "</group>\n";
}
void expect(const GNode& n, int level, std::vector<std::vector<int32_t>>& out) {
  if (n.level == level && n.hasCpu) {
    std::vector<int32_t> kept;
    for (long v : n.cpus)
      if (v >= 0 && v <= (1 << 20))
        kept.push_back((int32_t)v);
    if (!kept.empty())
      out.push_back(kept);
  }
  for (auto& k : n.kids)
    expect(k, level, out);
}
void xmlStructured(FuzzedDataProvider& f, int cacheIndex) {
  std::vector<GNode> roots;
  int nr = f.ConsumeIntegralInRange<int>(1, 3);
  bool nested = false;
  for (int i = 0; i < nr; ++i) {
    roots.push_back(genNode(f, 1));
    nested = nested || !roots.back().kids.empty();
  }
  std::string doc = "<groups>\n";
  for (auto& r : roots)
    emit(r, f, doc, 1);
  doc += "</groups>\n";
  ++g.structured;
  if (nested)
    ++g.structuredNested;
  std::vector<std::vector<int32_t>> want; // in document order: cacheId = position
  for (auto& r : roots)
    expect(r, cacheIndex, want);
  if (!want.empty())
    ++g.structuredMatches;
  auto got = dispenso::detail::parseCacheGroupsFromTopologySpec(doc, cacheIndex);
  checkGroups(got, doc);
  if (got.size() != want.size())
    violation("xml-group-count", "parser returned " + std::to_string(got.size()) + " groups of cache level " + std::to_string(cacheIndex) + ", the document has " + std::to_string(want.size()),
              doc);
  for (auto& gg : got) {
    if (gg.cacheId < 0 || gg.cacheId >= (int)want.size() || want[(size_t)gg.cacheId] != gg.cpus)
      violation("xml-group-content", "group with cache id " + std::to_string(gg.cacheId) + " does not hold the cpu list of the " + std::to_string(gg.cacheId) + "-th matching group of the document",
                doc);
  }
}
} // namespace

extern "C" int LLVMFuzzerInitialize(int*, char***) {
  atexit(dumpStats);
  return 0;
}

extern "C" int LLVMFuzzerTestOneInput(const uint8_t* data, size_t size) {
  FuzzedDataProvider f(data, size);
  ++g.runs;
  int mode = f.ConsumeIntegralInRange<int>(0, 2);
  int cacheIndex = f.ConsumeIntegralInRange<int>(0, 4);
  int maxGroup = f.ConsumeIntegralInRange<int>(-1, 12);
  ++g.mode[mode];
  if (mode == 2) {
    xmlStructured(f, cacheIndex);
    return 0;
  }
  std::string doc = f.ConsumeRemainingBytesAsString();
  if (mode == 0)
    cpulist(doc);
  else
    xmlRaw(doc, cacheIndex, maxGroup);
  return 0;
}
