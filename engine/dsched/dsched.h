// dsched — deterministic, serialising schedule explorer (engine E1).
// See /verif/DESIGN.md §2.1. The runtime (dsched.cpp) is compiled WITHOUT instrumentation; code
// under test is compiled with clang's -fsanitize=thread (atomics only) and linked without the
// TSan runtime, so every atomic operation calls into the __tsan_atomic* functions defined here.
#pragma once
#include <stdint.h>

#ifdef __cplusplus
extern "C" {
#endif

enum { DS_STRAT_RANDOM = 0, DS_STRAT_PCT = 1, DS_STRAT_STALL = 2 };
enum { DS_WHY_NONE = 0, DS_WHY_FUTEX, DS_WHY_MUTEX, DS_WHY_JOIN, DS_WHY_SLEEP, DS_WHY_COND, DS_WHY_SEM };

typedef struct {
  uint64_t seed;
  unsigned switch_inv;   // random walk: switch with probability 1/switch_inv at each point
  unsigned max_run;      // force a switch after this many points on one thread (fairness); 0 = 4096
  unsigned spurious_inv; // 0 = never; else a blocking futex/cond wait returns spuriously w.p. 1/n
  unsigned strategy;     // DS_STRAT_*
  uint64_t max_points;   // step budget before the fair confirmation phase (0 = 3M)
  uint64_t fair_points;  // points without progress in fair phase that count as livelock (0 = 1.5M)
  unsigned pct_depth;    // PCT priority change points
  uint64_t est_points;   // PCT / STALL: estimated execution length
  unsigned poison_heap;  // poison + quarantine freed blocks (operator delete)
  unsigned tick_ns;      // virtual ns added per schedule point (0 = 1): larger values shorten clock-polling spin loops
} dsched_cfg;

typedef struct {
  uint64_t points, switches, time_jumps, spurious, threads, now_ns, trace_hash, wake_choices;
  int fair_phase;
} dsched_stats_t;

typedef struct {
  int tid;           // thread whose deadline fired
  int why;           // DS_WHY_*
  const void* addr;  // what it was blocked on
  uint64_t from_ns, to_ns;
} dsched_jump;

// Verdict callbacks, invoked on the thread that detected the condition (token held).
typedef void (*dsched_deadlock_cb)(const char* table);
typedef void (*dsched_livelock_cb)(const char* table, int confirmed); // confirmed=0: budget only
typedef void (*dsched_jump_cb)(const dsched_jump* j);

void dsched_begin(const dsched_cfg* cfg);
void dsched_end(void);
int dsched_active(void);
uint64_t dsched_now(void);  // virtual ns
int dsched_tid(void);       // 0 = main, -1 = not registered
void dsched_point(void);    // explicit schedule point (harness bodies)
void dsched_progress(void); // harness: something useful happened (livelock detector)
void dsched_get_stats(dsched_stats_t* out);
void dsched_on_deadlock(dsched_deadlock_cb);
void dsched_on_livelock(dsched_livelock_cb);
void dsched_on_jump(dsched_jump_cb);
// number of registered threads currently blocked for reason `why` (0 = any) with a deadline
int dsched_count_blocked(int why, int timed_only);
int dsched_count_runnable(void);
// registered threads other than the caller that have not finished
int dsched_count_alive(void);
// is thread `tid` blocked (returns DS_WHY_* or 0), and is its wait timed
int dsched_thread_state(int tid, int* timed);
// Let everybody else run until nobody else is runnable (they are all blocked) or `max_points`.
// Returns 1 if quiescent was reached. Used to bring pool workers to the parked state.
int dsched_settle(uint64_t max_points);
// after dsched_end: 1 if a block freed during the case (operator delete / free) was written to afterwards
int dsched_check_heap(char* msg, unsigned long cap);
// block calling thread for virtual ns
void dsched_sleep_ns(uint64_t ns);
// last few decisions, human readable (for samples / replay files)
const char* dsched_trace_tail(void);
// thread table (states, blocking reasons), human readable
const char* dsched_table(void);

#ifdef __cplusplus
}
#endif
