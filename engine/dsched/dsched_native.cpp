// Native stand-in for the dsched API (non-dsched build variants): lets harnesses written for the schedule explorer run
// with real threads under ThreadSanitizer / AddressSanitizer (C10, C11). There the sanitizer is the oracle; semantic
// verdicts that depend on virtual time or on dsched's thread-state queries are not valid here (runner option --san-only).
// dsched_begin / dsched_end stay undefined (weak in the runner): their absence is how the runner recognises this mode.
#include "dsched.h"

#include <atomic>
#include <time.h>

namespace {
std::atomic<int> g_nextTid{1};
thread_local int t_tid = -1;
} // namespace

extern "C" {
int dsched_active(void) {
  return 0;
}
uint64_t dsched_now(void) {
  timespec ts;
  clock_gettime(CLOCK_MONOTONIC, &ts);
  return (uint64_t)ts.tv_sec * 1000000000ull + (uint64_t)ts.tv_nsec;
}
int dsched_tid(void) {
  if (t_tid < 0)
    t_tid = g_nextTid.fetch_add(1, std::memory_order_relaxed);
  return t_tid;
}
void dsched_point(void) {}
void dsched_progress(void) {}
void dsched_on_jump(dsched_jump_cb) {}
int dsched_count_blocked(int, int) {
  return 0;
}
int dsched_count_runnable(void) {
  return 0;
}
int dsched_count_alive(void) {
  return 0;
}
int dsched_thread_state(int, int* timed) {
  if (timed)
    *timed = 0;
  return 0;
}
void dsched_sleep_ns(uint64_t ns) {
  // virtual durations are generous (up to seconds); real ones are capped so that a native case stays short
  if (ns > 300000)
    ns = 300000;
  timespec ts = {0, (long)ns};
  nanosleep(&ts, nullptr);
}
int dsched_settle(uint64_t) {
  timespec ts = {0, 300000};
  nanosleep(&ts, nullptr);
  return 1;
}
const char* dsched_table(void) {
  return "";
}
}
