// dsched runtime: serialising scheduler via TSan-ABI hijack + libc interposition.
// Compiled WITHOUT -fsanitize=thread. See dsched.h and /verif/DESIGN.md §2.1.
#include "dsched.h"

extern "C" void __libc_free(void*);

#include <atomic>
#include <cerrno>
#include <cstdarg>
#include <cstdint>
#include <cstdio>
#include <cstdlib>
#include <cstring>
#include <dlfcn.h>
#include <linux/futex.h>
#include <malloc.h>
#include <new>
#include <pthread.h>
#include <sched.h>
#include <semaphore.h>
#include <string>
#include <sys/mman.h>
#include <sys/syscall.h>
#include <sys/time.h>
#include <time.h>
#include <unistd.h>
#include <unordered_map>
#include <vector>

namespace {

long raw_futex(volatile int* addr, int op, int val, const timespec* ts) {
  long ret;
  register long r10 __asm__("r10") = (long)ts;
  register long r8 __asm__("r8") = 0;
  register long r9 __asm__("r9") = 0;
  __asm__ volatile("syscall"
                   : "=a"(ret)
                   : "0"(SYS_futex), "D"(addr), "S"(op), "d"(val), "r"(r10), "r"(r8), "r"(r9)
                   : "rcx", "r11", "memory");
  return ret;
}

enum State { kRunnable, kBlocked, kFinished };

struct Th {
  int id;
  volatile int go = 0; // real futex word
  State st = kRunnable;
  int why = DS_WHY_NONE;
  const void* on = nullptr;
  uint64_t deadline = 0; // 0 = none (virtual ns)
  bool timedOut = false;
  bool hasReal = false;
  pthread_t real;
  void* (*fn)(void*);
  void* arg;
  long prio = 0;          // PCT
  uint64_t frozenUntil = 0; // STALL: not picked before this point index while others runnable
};

bool g_active = false;
dsched_cfg g_cfg;
std::vector<Th*> g_threads;
Th* g_cur = nullptr;
uint64_t g_now = 1000000000ull; // virtual ns
uint64_t g_rng = 88172645463325252ull;
uint64_t g_points = 0, g_switches = 0, g_jumps = 0, g_spurious = 0, g_wakeChoices = 0;
uint64_t g_traceHash = 1469598103934665603ull;
uint64_t g_runLen = 0;
uint64_t g_minDeadline = 0; // 0 = none pending (lower bound hint)
bool g_fair = false;
bool g_inCb = false;
bool g_trace = false; // DS_TRACE=1: log blocking operations to stderr // harness callbacks run inside the scheduler: their atomics are not schedule points
uint64_t g_fairSinceProgress = 0;
uint64_t g_fairStart = 0;
long g_lowPrio = -1;
std::vector<uint64_t> g_pctChange;
uint64_t g_stallAt = ~0ull, g_stallLen = 0;
dsched_deadlock_cb g_onDeadlock = nullptr;
dsched_livelock_cb g_onLivelock = nullptr;
dsched_jump_cb g_onJump = nullptr;
thread_local Th* t_self = nullptr;

struct Dec {
  uint64_t point;
  int from, to;
  char kind;
};
Dec g_tail[48];
unsigned g_tailN = 0;
std::string g_tailStr;

inline uint64_t rnd() {
  g_rng ^= g_rng << 13;
  g_rng ^= g_rng >> 7;
  g_rng ^= g_rng << 17;
  return g_rng;
}
inline void mix(uint64_t v) {
  g_traceHash ^= v;
  g_traceHash *= 1099511628211ull;
}
inline void note(char kind, int from, int to) {
  g_tail[g_tailN % 48] = Dec{g_points, from, to, kind};
  ++g_tailN;
  mix(g_points * 131 + (uint64_t)(to + 1) * 7 + (uint64_t)kind);
}

void wake_real(Th* t) {
  __atomic_store_n(&t->go, 1, __ATOMIC_SEQ_CST);
  raw_futex(&t->go, FUTEX_WAKE_PRIVATE, 1, nullptr);
}
void wait_real(Th* t) {
  while (__atomic_load_n(&t->go, __ATOMIC_SEQ_CST) == 0) {
    raw_futex(&t->go, FUTEX_WAIT_PRIVATE, 0, nullptr);
  }
  __atomic_store_n(&t->go, 0, __ATOMIC_SEQ_CST);
}

const char* whyName(int w) {
  static const char* n[] = {"none", "futex", "mutex", "join", "sleep", "cond", "sem"};
  return (w >= 0 && w < 7) ? n[w] : "?";
}

std::string table() {
  std::string s;
  char buf[256];
  snprintf(buf, sizeof buf, "points=%lu switches=%lu vnow=%lu fair=%d;", (unsigned long)g_points,
           (unsigned long)g_switches, (unsigned long)g_now, (int)g_fair);
  s += buf;
  for (Th* t : g_threads) {
    snprintf(buf, sizeof buf, " th%d:%s", t->id,
             t->st == kRunnable ? "runnable" : t->st == kFinished ? "finished" : "blocked");
    s += buf;
    if (t->st == kBlocked) {
      snprintf(buf, sizeof buf, "(%s@%p%s)", whyName(t->why), t->on, t->deadline ? ",timed" : "");
      s += buf;
    }
  }
  return s;
}

[[noreturn]] void deadlock() {
  std::string t = table();
  g_inCb = true;
  if (g_onDeadlock)
    g_onDeadlock(t.c_str());
  fprintf(stderr, "DSCHED: DEADLOCK %s\n", t.c_str());
  _exit(3);
}

void expire() {
  if (!g_minDeadline || g_minDeadline > g_now)
    return;
  uint64_t nm = 0;
  for (Th* t : g_threads) {
    if (t->st == kBlocked && t->deadline) {
      if (t->deadline <= g_now) {
        t->st = kRunnable;
        t->timedOut = true;
        t->deadline = 0;
      } else if (!nm || t->deadline < nm) {
        nm = t->deadline;
      }
    }
  }
  g_minDeadline = nm;
}

// pick next runnable (possibly advancing virtual time); never returns null.
// `notMe`: prefer a thread other than the caller when one is runnable (forced switch).
Th* pick(Th* notMe) {
  for (;;) {
    Th* r[256];
    int n = 0;
    for (Th* t : g_threads)
      if (t->st == kRunnable && n < 256)
        r[n++] = t;
    if (n > 0) {
      if (g_fair) {
        // round robin by id after current
        int curId = g_cur ? g_cur->id : -1;
        Th* best = nullptr;
        for (int i = 0; i < n; ++i)
          if (r[i]->id > curId && (!best || r[i]->id < best->id))
            best = r[i];
        if (!best)
          for (int i = 0; i < n; ++i)
            if (!best || r[i]->id < best->id)
              best = r[i];
        return best;
      }
      if (notMe && n > 1) {
        int m = 0;
        for (int i = 0; i < n; ++i)
          if (r[i] != notMe)
            r[m++] = r[i];
        n = m;
      }
      // honour STALL freezes when somebody unfrozen exists
      {
        Th* u[256];
        int m = 0;
        for (int i = 0; i < n; ++i)
          if (r[i]->frozenUntil <= g_points)
            u[m++] = r[i];
        if (m > 0 && m < n) {
          memcpy(r, u, sizeof(Th*) * m);
          n = m;
        }
      }
      if (g_cfg.strategy == DS_STRAT_PCT) {
        Th* best = r[0];
        for (int i = 1; i < n; ++i)
          if (r[i]->prio > best->prio)
            best = r[i];
        return best;
      }
      return r[rnd() % n];
    }
    // advance time to earliest deadline
    Th* best = nullptr;
    for (Th* t : g_threads)
      if (t->st == kBlocked && t->deadline && (!best || t->deadline < best->deadline))
        best = t;
    if (!best)
      deadlock();
    dsched_jump j{best->id, best->why, best->on, g_now, best->deadline};
    if (best->deadline > g_now)
      g_now = best->deadline;
    ++g_jumps;
    mix(0x9999 + best->id);
    if (g_onJump) {
      g_inCb = true;
      g_onJump(&j);
      g_inCb = false;
    }
    g_minDeadline = g_now; // force scan
    expire();
  }
}

void switch_to(Th* next, char kind) {
  Th* me = t_self;
  if (next == me)
    return;
  ++g_switches;
  g_runLen = 0;
  note(kind, me ? me->id : -1, next->id);
  g_cur = next;
  wake_real(next);
  wait_real(me);
}

void enter_fair_or_fail() {
  // budget exhausted: enter the fair confirmation phase once; later decide livelock
  if (!g_fair) {
    g_fair = true;
    g_fairStart = g_points;
    g_fairSinceProgress = 0;
    return;
  }
}

void yield_point(bool force = false) {
  Th* me = t_self;
  if (!g_active || !me || g_inCb)
    return;
  ++g_points;
  ++g_runLen;
  if (g_fair) {
    g_now += 1000;
    ++g_fairSinceProgress;
    uint64_t fp = g_cfg.fair_points ? g_cfg.fair_points : 1500000;
    if (g_fairSinceProgress > fp) {
      std::string t = table();
      g_inCb = true;
      if (g_onLivelock)
        g_onLivelock(t.c_str(), 1);
      fprintf(stderr, "DSCHED: LIVELOCK %s\n", t.c_str());
      _exit(5);
    }
    if (g_points - g_fairStart > 12 * fp) {
      std::string t = table();
      g_inCb = true;
      if (g_onLivelock)
        g_onLivelock(t.c_str(), 0);
      fprintf(stderr, "DSCHED: BUDGET %s\n", t.c_str());
      _exit(6);
    }
    expire();
    if (force || (g_points & 31) == 0)
      switch_to(pick(force ? me : nullptr), 'f');
    return;
  }
  g_now += g_cfg.tick_ns ? g_cfg.tick_ns : 1;
  expire();
  if (g_points > g_cfg.max_points) {
    enter_fair_or_fail();
    return;
  }
  if (g_points == g_stallAt) {
    me->frozenUntil = g_points + g_stallLen;
    force = true;
  }
  if (g_cfg.strategy == DS_STRAT_PCT) {
    bool change = false;
    while (!g_pctChange.empty() && g_pctChange.back() <= g_points) {
      g_pctChange.pop_back();
      change = true;
    }
    if (change || force || g_runLen > g_cfg.max_run) {
      me->prio = g_lowPrio--;
      g_runLen = 0;
    }
    Th* n = pick(nullptr);
    if (n != me)
      switch_to(n, 's');
    return;
  }
  if (force || g_runLen > g_cfg.max_run || (rnd() % g_cfg.switch_inv) == 0) {
    bool f = force || g_runLen > g_cfg.max_run;
    switch_to(pick(f ? me : nullptr), f ? 'y' : 's');
  }
}

// returns true if timed out
bool block(int why, const void* on, uint64_t deadline) {
  Th* me = t_self;
  me->st = kBlocked;
  me->why = why;
  me->on = on;
  me->deadline = deadline;
  me->timedOut = false;
  if (deadline && (!g_minDeadline || deadline < g_minDeadline))
    g_minDeadline = deadline;
  Th* next = pick(nullptr);
  if (next != me) {
    ++g_switches;
    g_runLen = 0;
    note('b', me->id, next->id);
    g_cur = next;
    wake_real(next);
    wait_real(me);
  }
  me->why = DS_WHY_NONE;
  me->on = nullptr;
  return me->timedOut;
}

int wake_on(int why, const void* on, int n) {
  Th* w[256];
  int m = 0;
  for (Th* t : g_threads)
    if (t->st == kBlocked && t->why == why && t->on == on && m < 256)
      w[m++] = t;
  int c = 0;
  if (m > n && n > 0)
    ++g_wakeChoices;
  while (c < n && m > 0) {
    int i = (int)(rnd() % (uint64_t)m);
    w[i]->st = kRunnable;
    w[i]->deadline = 0;
    w[i]->timedOut = false;
    mix(0x7777 + w[i]->id);
    w[i] = w[--m];
    ++c;
  }
  return c;
}

bool spurious() {
  if (!g_cfg.spurious_inv || g_fair)
    return false;
  if (rnd() % g_cfg.spurious_inv == 0) {
    ++g_spurious;
    mix(0x5555);
    return true;
  }
  return false;
}

struct Sentinel {
  ~Sentinel() {
    Th* me = t_self;
    if (!me || !g_active)
      return;
    me->st = kFinished;
    wake_on(DS_WHY_JOIN, me, 1 << 30);
    t_self = nullptr;
    Th* next = pick(nullptr);
    note('x', me->id, next->id);
    g_cur = next;
    wake_real(next);
  }
};

void* trampoline(void* p) {
  Th* me = (Th*)p;
  t_self = me;
  wait_real(me);
  static thread_local Sentinel s;
  (void)s;
  return me->fn(me->arg);
}

template <typename F>
F real(const char* name) {
  return (F)dlsym(RTLD_NEXT, name);
}

struct MutexModel {
  Th* owner = nullptr;
  int count = 0;
};
std::unordered_map<const void*, MutexModel> g_mutexes;
std::unordered_map<const void*, long> g_sems;

inline bool on() {
  return g_active && t_self;
}

uint64_t ts2ns(const timespec* ts) {
  return (uint64_t)ts->tv_sec * 1000000000ull + (uint64_t)ts->tv_nsec;
}

void model_lock(pthread_mutex_t* m) {
  MutexModel& mm = g_mutexes[m];
  if (mm.owner == t_self && (m->__data.__kind & 3) == PTHREAD_MUTEX_RECURSIVE_NP) {
    ++mm.count;
    return;
  }
  while (g_mutexes[m].owner)
    block(DS_WHY_MUTEX, m, 0);
  MutexModel& m2 = g_mutexes[m];
  m2.owner = t_self;
  m2.count = 1;
}
void model_unlock(pthread_mutex_t* m) {
  MutexModel& mm = g_mutexes[m];
  if (mm.count > 1) {
    --mm.count;
    return;
  }
  mm.owner = nullptr;
  mm.count = 0;
  wake_on(DS_WHY_MUTEX, m, 1 << 30);
}

// clock used by a cond var (default REALTIME for timedwait); we use a single virtual clock for
// all clock ids, so absolute deadlines are comparable with g_now directly.
int cond_wait_common(pthread_cond_t* c, pthread_mutex_t* m, const timespec* abs) {
  yield_point();
  if (spurious())
    return 0;
  uint64_t dl = 0;
  if (abs) {
    dl = ts2ns(abs);
    if (dl <= g_now)
      return ETIMEDOUT;
  }
  model_unlock(m);
  bool to = block(DS_WHY_COND, c, dl);
  model_lock(m);
  return to ? ETIMEDOUT : 0;
}

// ---- heap poisoning -------------------------------------------------------------------------
// Freed blocks (operator delete and free()) are filled with 0xDD and never returned to the allocator while a case runs
// (the child _exits afterwards). Their addresses are recorded so that dsched_check_heap() can find WRITES to freed
// memory at the end of the case: any byte that is no longer 0xDD.
struct QEntry {
  void* p;
  size_t n;
};
constexpr size_t kQMax = 1u << 20;
QEntry* g_q = nullptr;
size_t g_qn = 0;
void poison_free(void* p) {
  if (!p)
    return;
  if (g_active && g_cfg.poison_heap) {
    size_t n = malloc_usable_size(p);
    memset(p, 0xDD, n);
    if (!g_q)
      g_q = (QEntry*)mmap(nullptr, kQMax * sizeof(QEntry), PROT_READ | PROT_WRITE, MAP_PRIVATE | MAP_ANONYMOUS | MAP_NORESERVE, -1, 0);
    if (g_q != MAP_FAILED && g_qn < kQMax)
      g_q[g_qn++] = QEntry{p, n};
    return; // quarantined for the rest of the case
  }
  __libc_free(p);
}

} // namespace

void* operator new(size_t n) {
  void* p = malloc(n ? n : 1);
  if (!p)
    throw std::bad_alloc();
  return p;
}
void* operator new[](size_t n) {
  return operator new(n);
}
void* operator new(size_t n, const std::nothrow_t&) noexcept {
  return malloc(n ? n : 1);
}
void* operator new[](size_t n, const std::nothrow_t&) noexcept {
  return malloc(n ? n : 1);
}
void operator delete(void* p) noexcept {
  poison_free(p);
}
void operator delete[](void* p) noexcept {
  poison_free(p);
}
void operator delete(void* p, size_t) noexcept {
  poison_free(p);
}
void operator delete[](void* p, size_t) noexcept {
  poison_free(p);
}

extern "C" {
void free(void* p) {
  poison_free(p);
}
int dsched_check_heap(char* msg, unsigned long cap) {
  for (size_t i = 0; i < g_qn; ++i) {
    const unsigned char* b = (const unsigned char*)g_q[i].p;
    for (size_t k = 0; k < g_q[i].n; ++k)
      if (b[k] != 0xDD) {
        if (msg)
          snprintf(msg, cap, "a freed block of %zu bytes was written to after it had been freed (offset %zu, byte now 0x%02x)", g_q[i].n, k, b[k]);
        return 1;
      }
  }
  return 0;
}

void dsched_begin(const dsched_cfg* cfg) {
  g_cfg = *cfg;
  if (!g_cfg.switch_inv)
    g_cfg.switch_inv = 16;
  if (!g_cfg.max_run)
    g_cfg.max_run = 4096;
  if (!g_cfg.max_points)
    g_cfg.max_points = 3000000;
  g_rng = cfg->seed * 2654435761ull + 88172645463325252ull;
  for (int i = 0; i < 4; ++i)
    rnd();
  Th* m = new Th();
  m->id = 0;
  m->prio = 1000000;
  t_self = m;
  g_threads.clear();
  g_threads.push_back(m);
  g_cur = m;
  g_points = g_switches = g_jumps = g_spurious = g_wakeChoices = 0;
  g_traceHash = 1469598103934665603ull;
  g_runLen = 0;
  g_minDeadline = 0;
  g_fair = false;
  g_lowPrio = -1;
  g_tailN = 0;
  g_pctChange.clear();
  g_stallAt = ~0ull;
  uint64_t est = cfg->est_points ? cfg->est_points : 5000;
  if (g_cfg.strategy == DS_STRAT_PCT) {
    unsigned d = cfg->pct_depth ? cfg->pct_depth : 2;
    for (unsigned i = 0; i < d; ++i)
      g_pctChange.push_back(1 + rnd() % est);
    // sort descending so back() is the smallest
    for (size_t i = 0; i < g_pctChange.size(); ++i)
      for (size_t j = i + 1; j < g_pctChange.size(); ++j)
        if (g_pctChange[j] > g_pctChange[i]) {
          uint64_t t = g_pctChange[i];
          g_pctChange[i] = g_pctChange[j];
          g_pctChange[j] = t;
        }
  } else if (g_cfg.strategy == DS_STRAT_STALL) {
    g_stallAt = 1 + rnd() % est;
    g_stallLen = 50 + rnd() % (est / 2 + 50);
  }
  g_trace = getenv("DS_TRACE") != nullptr;
  g_active = true;
}

void dsched_end() {
  g_active = false;
  t_self = nullptr;
}

int dsched_active() {
  return g_active ? 1 : 0;
}
uint64_t dsched_now() {
  return g_now;
}
int dsched_tid() {
  return t_self ? t_self->id : -1;
}
void dsched_point() {
  yield_point();
}
void dsched_progress() {
  g_fairSinceProgress = 0;
}
void dsched_get_stats(dsched_stats_t* o) {
  o->points = g_points;
  o->switches = g_switches;
  o->time_jumps = g_jumps;
  o->spurious = g_spurious;
  o->threads = g_threads.size();
  o->now_ns = g_now;
  o->trace_hash = g_traceHash;
  o->wake_choices = g_wakeChoices;
  o->fair_phase = g_fair ? 1 : 0;
}
void dsched_on_deadlock(dsched_deadlock_cb c) {
  g_onDeadlock = c;
}
void dsched_on_livelock(dsched_livelock_cb c) {
  g_onLivelock = c;
}
void dsched_on_jump(dsched_jump_cb c) {
  g_onJump = c;
}
int dsched_count_blocked(int why, int timed_only) {
  int c = 0;
  for (Th* t : g_threads)
    if (t->st == kBlocked && (!why || t->why == why) && (!timed_only || t->deadline))
      ++c;
  return c;
}
int dsched_count_runnable() {
  int c = 0;
  for (Th* t : g_threads)
    if (t->st == kRunnable)
      ++c;
  return c;
}
int dsched_count_alive() {
  int c = 0;
  for (Th* t : g_threads)
    if (t != t_self && t->st != kFinished)
      ++c;
  return c;
}
int dsched_thread_state(int tid, int* timed) {
  for (Th* t : g_threads)
    if (t->id == tid) {
      if (timed)
        *timed = t->deadline ? 1 : 0;
      return t->st == kBlocked ? t->why : (t->st == kFinished ? -1 : 0);
    }
  return -2;
}
int dsched_settle(uint64_t max_points) {
  if (!on())
    return 1;
  uint64_t start = g_points;
  for (;;) {
    int others = 0;
    for (Th* t : g_threads)
      if (t != t_self && t->st == kRunnable)
        ++others;
    if (!others)
      return 1;
    if (g_points - start > max_points)
      return 0;
    yield_point(true);
  }
}
void dsched_sleep_ns(uint64_t ns) {
  if (!on())
    return;
  block(DS_WHY_SLEEP, nullptr, g_now + ns + 1);
}
const char* dsched_table() {
  static std::string t;
  t = table();
  return t.c_str();
}
const char* dsched_trace_tail() {
  g_tailStr.clear();
  unsigned n = g_tailN < 48 ? g_tailN : 48;
  char buf[64];
  for (unsigned i = 0; i < n; ++i) {
    const Dec& d = g_tail[(g_tailN - n + i) % 48];
    snprintf(buf, sizeof buf, "%s%lu:%c%d>%d", i ? " " : "", (unsigned long)d.point, d.kind, d.from, d.to);
    g_tailStr += buf;
  }
  return g_tailStr.c_str();
}

// ---- pthread ---------------------------------------------------------------------------------

int pthread_create(pthread_t* th, const pthread_attr_t* attr, void* (*fn)(void*), void* arg) {
  static auto r = real<int (*)(pthread_t*, const pthread_attr_t*, void* (*)(void*), void*)>("pthread_create");
  if (!on())
    return r(th, attr, fn, arg);
  Th* t = new Th();
  t->id = (int)g_threads.size();
  t->fn = fn;
  t->arg = arg;
  t->prio = 1000 + (long)(rnd() % 1000);
  g_threads.push_back(t);
  int rc = r(th, attr, trampoline, t);
  if (rc != 0) {
    t->st = kFinished;
    return rc;
  }
  t->real = *th;
  t->hasReal = true;
  yield_point();
  return rc;
}

int pthread_join(pthread_t th, void** ret) {
  static auto r = real<int (*)(pthread_t, void**)>("pthread_join");
  if (on()) {
    Th* target = nullptr;
    for (Th* t : g_threads)
      if (t->hasReal && pthread_equal(t->real, th))
        target = t;
    if (target) {
      yield_point();
      while (target->st != kFinished)
        block(DS_WHY_JOIN, target, 0);
      target->hasReal = false;
    }
  }
  return r(th, ret);
}

int pthread_mutex_lock(pthread_mutex_t* m) {
  static auto r = real<int (*)(pthread_mutex_t*)>("pthread_mutex_lock");
  if (!on())
    return r(m);
  yield_point();
  model_lock(m);
  return 0;
}
int pthread_mutex_trylock(pthread_mutex_t* m) {
  static auto r = real<int (*)(pthread_mutex_t*)>("pthread_mutex_trylock");
  if (!on())
    return r(m);
  yield_point();
  MutexModel& mm = g_mutexes[m];
  if (mm.owner) {
    if (mm.owner == t_self && (m->__data.__kind & 3) == PTHREAD_MUTEX_RECURSIVE_NP) {
      ++mm.count;
      return 0;
    }
    return EBUSY;
  }
  mm.owner = t_self;
  mm.count = 1;
  return 0;
}
int pthread_mutex_unlock(pthread_mutex_t* m) {
  static auto r = real<int (*)(pthread_mutex_t*)>("pthread_mutex_unlock");
  if (!on())
    return r(m);
  model_unlock(m);
  yield_point();
  return 0;
}

int pthread_cond_wait(pthread_cond_t* c, pthread_mutex_t* m) {
  static auto r = real<int (*)(pthread_cond_t*, pthread_mutex_t*)>("pthread_cond_wait");
  if (!on())
    return r(c, m);
  return cond_wait_common(c, m, nullptr);
}
int pthread_cond_timedwait(pthread_cond_t* c, pthread_mutex_t* m, const timespec* abs) {
  static auto r = real<int (*)(pthread_cond_t*, pthread_mutex_t*, const timespec*)>("pthread_cond_timedwait");
  if (!on())
    return r(c, m, abs);
  return cond_wait_common(c, m, abs);
}
int pthread_cond_clockwait(pthread_cond_t* c, pthread_mutex_t* m, clockid_t clk, const timespec* abs) {
  static auto r =
      real<int (*)(pthread_cond_t*, pthread_mutex_t*, clockid_t, const timespec*)>("pthread_cond_clockwait");
  if (!on())
    return r(c, m, clk, abs);
  return cond_wait_common(c, m, abs);
}
int pthread_cond_signal(pthread_cond_t* c) {
  static auto r = real<int (*)(pthread_cond_t*)>("pthread_cond_signal");
  if (!on())
    return r(c);
  wake_on(DS_WHY_COND, c, 1);
  yield_point();
  return 0;
}
int pthread_cond_broadcast(pthread_cond_t* c) {
  static auto r = real<int (*)(pthread_cond_t*)>("pthread_cond_broadcast");
  if (!on())
    return r(c);
  wake_on(DS_WHY_COND, c, 1 << 30);
  yield_point();
  return 0;
}

// ---- semaphores (moodycamel LightweightSemaphore) ---------------------------------------------
int sem_init(sem_t* s, int pshared, unsigned v) {
  static auto r = real<int (*)(sem_t*, int, unsigned)>("sem_init");
  int rc = r(s, pshared, v);
  if (on())
    g_sems[s] = (long)v;
  return rc;
}
int sem_destroy(sem_t* s) {
  static auto r = real<int (*)(sem_t*)>("sem_destroy");
  if (on())
    g_sems.erase(s);
  return r(s);
}
int sem_post(sem_t* s) {
  static auto r = real<int (*)(sem_t*)>("sem_post");
  if (!on())
    return r(s);
  ++g_sems[s];
  wake_on(DS_WHY_SEM, s, 1);
  yield_point();
  return 0;
}
int sem_wait(sem_t* s) {
  static auto r = real<int (*)(sem_t*)>("sem_wait");
  if (!on())
    return r(s);
  yield_point();
  while (g_sems[s] <= 0)
    block(DS_WHY_SEM, s, 0);
  --g_sems[s];
  return 0;
}
int sem_trywait(sem_t* s) {
  static auto r = real<int (*)(sem_t*)>("sem_trywait");
  if (!on())
    return r(s);
  yield_point();
  if (g_sems[s] <= 0) {
    errno = EAGAIN;
    return -1;
  }
  --g_sems[s];
  return 0;
}
int sem_timedwait(sem_t* s, const timespec* abs) {
  static auto r = real<int (*)(sem_t*, const timespec*)>("sem_timedwait");
  if (!on())
    return r(s, abs);
  yield_point();
  uint64_t dl = ts2ns(abs);
  while (g_sems[s] <= 0) {
    if (dl <= g_now || block(DS_WHY_SEM, s, dl)) {
      if (g_sems[s] > 0)
        break;
      errno = ETIMEDOUT;
      return -1;
    }
  }
  --g_sems[s];
  return 0;
}
int sem_clockwait(sem_t* s, clockid_t, const timespec* abs) {
  return sem_timedwait(s, abs);
}

// ---- yield / sleep / clock --------------------------------------------------------------------
int sched_yield() {
  static auto r = real<int (*)()>("sched_yield");
  if (!on())
    return r();
  yield_point(true);
  return 0;
}

int clock_gettime(clockid_t c, timespec* ts) {
  static auto r = real<int (*)(clockid_t, timespec*)>("clock_gettime");
  if (!on())
    return r(c, ts);
  g_now += g_fair ? 1000 : 20;
  ts->tv_sec = (time_t)(g_now / 1000000000ull);
  ts->tv_nsec = (long)(g_now % 1000000000ull);
  return 0;
}
int gettimeofday(struct timeval* tv, void* tz) {
  static auto r = real<int (*)(struct timeval*, void*)>("gettimeofday");
  if (!on())
    return r(tv, tz);
  g_now += 20;
  tv->tv_sec = (time_t)(g_now / 1000000000ull);
  tv->tv_usec = (suseconds_t)((g_now % 1000000000ull) / 1000);
  return 0;
}
time_t time(time_t* t) {
  static auto r = real<time_t (*)(time_t*)>("time");
  if (!on())
    return r(t);
  time_t v = (time_t)(g_now / 1000000000ull);
  if (t)
    *t = v;
  return v;
}

int nanosleep(const timespec* req, timespec* rem) {
  static auto r = real<int (*)(const timespec*, timespec*)>("nanosleep");
  if (!on())
    return r(req, rem);
  block(DS_WHY_SLEEP, nullptr, g_now + ts2ns(req) + 1);
  if (rem) {
    rem->tv_sec = 0;
    rem->tv_nsec = 0;
  }
  return 0;
}
int clock_nanosleep(clockid_t c, int flags, const timespec* req, timespec* rem) {
  static auto r = real<int (*)(clockid_t, int, const timespec*, timespec*)>("clock_nanosleep");
  if (!on())
    return r(c, flags, req, rem);
  uint64_t dl = (flags & TIMER_ABSTIME) ? ts2ns(req) : g_now + ts2ns(req) + 1;
  if (dl > g_now)
    block(DS_WHY_SLEEP, nullptr, dl);
  return 0;
}
int usleep(useconds_t us) {
  static auto r = real<int (*)(useconds_t)>("usleep");
  if (!on())
    return r(us);
  block(DS_WHY_SLEEP, nullptr, g_now + (uint64_t)us * 1000 + 1);
  return 0;
}

long syscall(long n, ...) {
  va_list ap;
  va_start(ap, n);
  long a[6];
  for (int i = 0; i < 6; ++i)
    a[i] = va_arg(ap, long);
  va_end(ap);
  static auto r = real<long (*)(long, ...)>("syscall");
  if (n == SYS_futex && on()) {
    int* addr = (int*)a[0];
    int op = (int)a[1] & ~(FUTEX_PRIVATE_FLAG | FUTEX_CLOCK_REALTIME);
    int val = (int)a[2];
    const timespec* ts = (const timespec*)a[3];
    if (op == FUTEX_WAIT || op == FUTEX_WAIT_BITSET) {
      yield_point();
      if (g_trace)
        fprintf(stderr, "[%lu] th%d futex_wait %p val=%d cur=%d timed=%d\n", (unsigned long)g_points, t_self->id, (void*)addr, val,
                __atomic_load_n(addr, __ATOMIC_SEQ_CST), ts ? 1 : 0);
      if (__atomic_load_n(addr, __ATOMIC_SEQ_CST) != val) {
        errno = EAGAIN;
        return -1;
      }
      if (spurious())
        return 0;
      uint64_t dl = 0;
      if (ts)
        dl = (op == FUTEX_WAIT_BITSET) ? ts2ns(ts) : g_now + ts2ns(ts) + 1;
      if (block(DS_WHY_FUTEX, addr, dl)) {
        errno = ETIMEDOUT;
        return -1;
      }
      return 0;
    } else if (op == FUTEX_WAKE || op == FUTEX_WAKE_BITSET) {
      int c = wake_on(DS_WHY_FUTEX, addr, val);
      if (g_trace)
        fprintf(stderr, "[%lu] th%d futex_wake %p n=%d woke=%d cur=%d\n", (unsigned long)g_points, t_self->id, (void*)addr, val, c,
                __atomic_load_n(addr, __ATOMIC_SEQ_CST));
      yield_point();
      return c;
    }
    fprintf(stderr, "DSCHED: unsupported futex op %d\n", op);
    _exit(4);
  }
  return r(n, a[0], a[1], a[2], a[3], a[4], a[5]);
}

// ---- tsan ABI --------------------------------------------------------------------------------
void __tsan_init() {}
void AnnotateHappensBefore(const char*, int, const volatile void*) {}
void AnnotateHappensAfter(const char*, int, const volatile void*) {}
void AnnotateIgnoreReadsBegin(const char*, int) {}
void AnnotateIgnoreReadsEnd(const char*, int) {}
void AnnotateIgnoreWritesBegin(const char*, int) {}
void AnnotateIgnoreWritesEnd(const char*, int) {}
void AnnotateNewMemory(const char*, int, const volatile void*, long) {}
void AnnotateRWLockCreate(const char*, int, const volatile void*) {}
void AnnotateRWLockDestroy(const char*, int, const volatile void*) {}
void AnnotateRWLockAcquired(const char*, int, const volatile void*, long) {}
void AnnotateRWLockReleased(const char*, int, const volatile void*, long) {}
void AnnotateBenignRaceSized(const char*, int, const volatile void*, long, const char*) {}
void __tsan_func_entry(void*) {}
void __tsan_func_exit() {}
typedef int mo;
#define sp() yield_point()
#define DEF(N, T)                                                                         \
  T __tsan_atomic##N##_load(const volatile T* a, mo) {                                    \
    sp();                                                                                 \
    return __atomic_load_n(a, __ATOMIC_SEQ_CST);                                          \
  }                                                                                       \
  void __tsan_atomic##N##_store(volatile T* a, T v, mo) {                                 \
    sp();                                                                                 \
    __atomic_store_n(a, v, __ATOMIC_SEQ_CST);                                             \
  }                                                                                       \
  T __tsan_atomic##N##_exchange(volatile T* a, T v, mo) {                                 \
    sp();                                                                                 \
    return __atomic_exchange_n(a, v, __ATOMIC_SEQ_CST);                                   \
  }                                                                                       \
  T __tsan_atomic##N##_fetch_add(volatile T* a, T v, mo) {                                \
    sp();                                                                                 \
    return __atomic_fetch_add(a, v, __ATOMIC_SEQ_CST);                                    \
  }                                                                                       \
  T __tsan_atomic##N##_fetch_sub(volatile T* a, T v, mo) {                                \
    sp();                                                                                 \
    return __atomic_fetch_sub(a, v, __ATOMIC_SEQ_CST);                                    \
  }                                                                                       \
  T __tsan_atomic##N##_fetch_and(volatile T* a, T v, mo) {                                \
    sp();                                                                                 \
    return __atomic_fetch_and(a, v, __ATOMIC_SEQ_CST);                                    \
  }                                                                                       \
  T __tsan_atomic##N##_fetch_or(volatile T* a, T v, mo) {                                 \
    sp();                                                                                 \
    return __atomic_fetch_or(a, v, __ATOMIC_SEQ_CST);                                     \
  }                                                                                       \
  T __tsan_atomic##N##_fetch_xor(volatile T* a, T v, mo) {                                \
    sp();                                                                                 \
    return __atomic_fetch_xor(a, v, __ATOMIC_SEQ_CST);                                    \
  }                                                                                       \
  T __tsan_atomic##N##_fetch_nand(volatile T* a, T v, mo) {                               \
    sp();                                                                                 \
    return __atomic_fetch_nand(a, v, __ATOMIC_SEQ_CST);                                   \
  }                                                                                       \
  int __tsan_atomic##N##_compare_exchange_strong(volatile T* a, T* c, T v, mo, mo) {      \
    sp();                                                                                 \
    return __atomic_compare_exchange_n(a, c, v, 0, __ATOMIC_SEQ_CST, __ATOMIC_SEQ_CST);   \
  }                                                                                       \
  int __tsan_atomic##N##_compare_exchange_weak(volatile T* a, T* c, T v, mo, mo) {        \
    sp();                                                                                 \
    return __atomic_compare_exchange_n(a, c, v, 0, __ATOMIC_SEQ_CST, __ATOMIC_SEQ_CST);   \
  }                                                                                       \
  T __tsan_atomic##N##_compare_exchange_val(volatile T* a, T c, T v, mo, mo) {            \
    sp();                                                                                 \
    __atomic_compare_exchange_n(a, &c, v, 0, __ATOMIC_SEQ_CST, __ATOMIC_SEQ_CST);         \
    return c;                                                                             \
  }
DEF(8, uint8_t)
DEF(16, uint16_t)
DEF(32, uint32_t)
DEF(64, uint64_t)
void __tsan_atomic_thread_fence(mo) {
  sp();
  __atomic_thread_fence(__ATOMIC_SEQ_CST);
}
void __tsan_atomic_signal_fence(mo) {}

// fine-grained mode: plain accesses of selected TUs are schedule points too
#define PLAIN(name) \
  void name(void*) { sp(); }
PLAIN(__tsan_read1)
PLAIN(__tsan_read2)
PLAIN(__tsan_read4)
PLAIN(__tsan_read8)
PLAIN(__tsan_read16)
PLAIN(__tsan_write1)
PLAIN(__tsan_write2)
PLAIN(__tsan_write4)
PLAIN(__tsan_write8)
PLAIN(__tsan_write16)
PLAIN(__tsan_unaligned_read2)
PLAIN(__tsan_unaligned_read4)
PLAIN(__tsan_unaligned_read8)
PLAIN(__tsan_unaligned_read16)
PLAIN(__tsan_unaligned_write2)
PLAIN(__tsan_unaligned_write4)
PLAIN(__tsan_unaligned_write8)
PLAIN(__tsan_unaligned_write16)
PLAIN(__tsan_vptr_read)
void __tsan_vptr_update(void**, void*) { sp(); }
// memory intrinsics (aggregate copies, memcpy/memmove/memset calls) of fine-grained TUs: a copy is not atomic, so a
// copy of 16 bytes or more is split in two with a schedule point in between (stale AND torn copies are reachable)
void* __tsan_memcpy(void* d, const void* s, unsigned long n) {
  sp();
  if (n >= 16) {
    unsigned long h = (n / 2) & ~7ul;
    __builtin_memcpy(d, s, h);
    sp();
    __builtin_memcpy((char*)d + h, (const char*)s + h, n - h);
  } else {
    __builtin_memcpy(d, s, n);
  }
  return d;
}
void* __tsan_memmove(void* d, const void* s, unsigned long n) {
  sp();
  return __builtin_memmove(d, s, n);
}
void* __tsan_memset(void* d, int v, unsigned long n) {
  sp();
  return __builtin_memset(d, v, n);
}
void __tsan_read_range(void*, unsigned long) { sp(); }
void __tsan_write_range(void*, unsigned long) { sp(); }
void __tsan_read_write1(void*) { sp(); }
void __tsan_read_write2(void*) { sp(); }
void __tsan_read_write4(void*) { sp(); }
void __tsan_read_write8(void*) { sp(); }
void __tsan_read_write16(void*) { sp(); }
}
