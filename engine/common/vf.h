// vf — shared case runner for all harnesses (generation, fork-per-case isolation, verdict
// collection, classification counters, replay by explicit parameters). See DESIGN.md §3.
#pragma once
#include <cstdint>
#include <cstdio>
#include <cstdlib>
#include <map>
#include <memory>
#include <new>
#include <sstream>
#include <string>
#include <utility>
#include <vector>

namespace vf {

struct Rng {
  uint64_t s;
  explicit Rng(uint64_t seed = 1) : s(seed * 0x9E3779B97F4A7C15ull + 0x1234567ull) {
    next();
    next();
  }
  uint64_t next() { // splitmix64
    uint64_t z = (s += 0x9E3779B97F4A7C15ull);
    z = (z ^ (z >> 30)) * 0xBF58476D1CE4E5B9ull;
    z = (z ^ (z >> 27)) * 0x94D049BB133111EBull;
    return z ^ (z >> 31);
  }
  uint64_t below(uint64_t n) {
    return n ? next() % n : 0;
  }
  long range(long lo, long hi) { // inclusive
    return lo + (long)below((uint64_t)(hi - lo) + 1);
  }
  bool chance(unsigned num, unsigned den) {
    return below(den) < num;
  }
  template <typename T>
  T pick(std::initializer_list<T> l) {
    size_t i = below(l.size());
    return *(l.begin() + i);
  }
};

// ordered key/value parameter set; the unit of generation, replay and shrinking
struct KV {
  std::vector<std::pair<std::string, std::string>> v;
  void set(const std::string& k, const std::string& val) {
    for (auto& p : v)
      if (p.first == k) {
        p.second = val;
        return;
      }
    v.emplace_back(k, val);
  }
  void set(const std::string& k, long val) {
    set(k, std::to_string(val));
  }
  void setu(const std::string& k, uint64_t val) {
    set(k, std::to_string(val));
  }
  bool has(const std::string& k) const {
    for (auto& p : v)
      if (p.first == k)
        return true;
    return false;
  }
  std::string s(const std::string& k, const std::string& def = "") const {
    for (auto& p : v)
      if (p.first == k)
        return p.second;
    return def;
  }
  long i(const std::string& k, long def = 0) const {
    for (auto& p : v)
      if (p.first == k)
        return strtol(p.second.c_str(), nullptr, 10);
    return def;
  }
  uint64_t u(const std::string& k, uint64_t def = 0) const {
    for (auto& p : v)
      if (p.first == k)
        return strtoull(p.second.c_str(), nullptr, 10);
    return def;
  }
  // list helpers: values like "3,1,4"
  std::vector<long> list(const std::string& k) const {
    std::vector<long> out;
    std::string t = s(k);
    size_t i = 0;
    while (i < t.size()) {
      size_t j = t.find(',', i);
      if (j == std::string::npos)
        j = t.size();
      if (j > i)
        out.push_back(strtol(t.substr(i, j - i).c_str(), nullptr, 10));
      i = j + 1;
    }
    return out;
  }
  void setList(const std::string& k, const std::vector<long>& l) {
    std::string t;
    for (size_t i = 0; i < l.size(); ++i) {
      if (i)
        t += ',';
      t += std::to_string(l[i]);
    }
    set(k, t);
  }
  std::string dump() const {
    std::string o;
    for (auto& p : v) {
      if (!o.empty())
        o += ';';
      o += p.first + "=" + p.second;
    }
    return o;
  }
  static KV parse(const std::string& t) {
    KV kv;
    size_t i = 0;
    while (i < t.size()) {
      size_t j = t.find(';', i);
      if (j == std::string::npos)
        j = t.size();
      std::string item = t.substr(i, j - i);
      size_t e = item.find('=');
      if (e != std::string::npos)
        kv.set(item.substr(0, e), item.substr(e + 1));
      i = j + 1;
    }
    return kv;
  }
  uint64_t hash() const {
    uint64_t h = 1469598103934665603ull;
    for (auto& p : v) {
      for (char c : p.first)
        h = (h ^ (unsigned char)c) * 1099511628211ull;
      h = (h ^ '=') * 1099511628211ull;
      for (char c : p.second)
        h = (h ^ (unsigned char)c) * 1099511628211ull;
      h = (h ^ ';') * 1099511628211ull;
    }
    return h;
  }
};

struct Case {
  KV p;
  uint64_t index = 0;
  bool nontrivial = false;
  uint64_t extraHash = 0; // mixed into the distinctness hash (e.g. observed schedule hash)
  std::map<std::string, long> classes;
  std::string sample; // free text appended to the sample record
  bool replayMode = false;
  std::string phase; // harness-set context, appended to deadlock/livelock signatures ("livelock@pool-dtor")
  // set of known-finding signatures passed by the driver (failures matching them are counted,
  // not reported; generators may also avoid those regions)
  std::vector<std::string> known;

  void cls(const std::string& name, long n = 1) {
    classes[name] += n;
  }
  bool isKnown(const std::string& sig) const {
    for (auto& k : known)
      if (k == sig)
        return true;
    return false;
  }
  // terminal verdicts (write the record to the parent and _exit the child)
  [[noreturn]] void fail(const std::string& sig, const std::string& msg);
  [[noreturn]] void inconclusive(const std::string& why);
  [[noreturn]] void pass();
};

#define VF_CHECK(c, cond, sig, ...)                          \
  do {                                                       \
    if (!(cond)) {                                           \
      char _b[1024];                                         \
      snprintf(_b, sizeof _b, __VA_ARGS__);                  \
      (c).fail((sig), _b);                                   \
    }                                                        \
  } while (0)

// Heap objects of over-aligned types (dispenso's ThreadPool, TaskSet, ConcurrentTaskSet ... are cache-line aligned):
// plain new / std::make_unique do not honour that in C++14 builds, which would be the harness's own UB.
template <typename T>
struct AlignedDelete {
  void operator()(T* p) const {
    p->~T();
    free(p);
  }
};
template <typename T>
using aligned_ptr = std::unique_ptr<T, AlignedDelete<T>>;
template <typename T, typename... A>
aligned_ptr<T> make_aligned(A&&... a) {
  void* mem = nullptr;
  if (posix_memalign(&mem, alignof(T) < sizeof(void*) ? sizeof(void*) : alignof(T), sizeof(T)) != 0)
    abort();
  return aligned_ptr<T>(::new (mem) T(std::forward<A>(a)...));
}

enum Flags {
  kE1 = 1,      // run under dsched; one case per child
  kBatch = 2,   // many cases per child (native); crash attributed through shared slot
  kNoFork = 4,  // run in-process (pure functions; fastest); failure still reported per case
};

struct Opts {
  std::string tier = "quick";
  std::vector<std::string> known; // known-finding signatures: generators exclude those regions by construction
  bool isKnown(const std::string& s) const {
    for (auto& k : known)
      if (k == s)
        return true;
    return false;
  }
  bool thorough() const {
    return tier == "thorough";
  }
};

struct Prop {
  const char* id;   // "C21"
  const char* part; // sub-harness name, e.g. "latch"
  void (*gen)(Rng&, KV&, const Opts&);
  void (*run)(Case&);
  int flags;
  long quickCases, thoroughCases;
  const char* ntRule; // human text of the non-triviality rule
};

// harness main: parses argv, runs the selected prop/part, prints one JSON summary line
int runMain(int argc, char** argv, const Prop* props, int nprops);

// current case (for callbacks on foreign threads)
Case* current();

} // namespace vf
