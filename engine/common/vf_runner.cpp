// vf runner: process-level driver shared by all harness binaries. Compiled uninstrumented.
#include "vf.h"

#include "../dsched/dsched.h"

#include <algorithm>
#include <cerrno>
#include <csignal>
#include <cstring>
#include <fcntl.h>
#include <poll.h>
#include <set>
#include <sys/mman.h>
#include <sys/personality.h>
#include <sys/prctl.h>
#include <sys/resource.h>
#include <sys/syscall.h>
#include <sys/time.h>
#include <sys/wait.h>
#include <time.h>
#include <unistd.h>

// dsched is optional at link time (native harnesses do not link it)
extern "C" {
void dsched_begin(const dsched_cfg*) __attribute__((weak));
void dsched_end(void) __attribute__((weak));
void dsched_get_stats(dsched_stats_t*) __attribute__((weak));
void dsched_on_deadlock(dsched_deadlock_cb) __attribute__((weak));
void dsched_on_livelock(dsched_livelock_cb) __attribute__((weak));
const char* dsched_trace_tail(void) __attribute__((weak));
int dsched_active(void) __attribute__((weak));
int dsched_check_heap(char*, unsigned long) __attribute__((weak));
}

namespace vf {

namespace {

Case* g_case = nullptr;
int g_outFd = -1;
bool g_isE1 = false;
char* g_slot = nullptr; // shared: current case kv (crash attribution)
constexpr size_t kSlotSize = 16384;

// child-side accumulation (batch mode)
struct Acc {
  uint64_t evaluations = 0;
  std::vector<uint64_t> ntHashes;
  std::map<std::string, long> classes;
  std::vector<std::string> samples;
  uint64_t points = 0, switches = 0, jumps = 0, spurious = 0, wakeChoices = 0;
  uint64_t lastIndex = 0;
} g_acc;

std::string oneLine(std::string s) {
  for (char& c : s)
    if (c == '\n' || c == '\r' || c == '\x1f')
      c = ' ';
  return s;
}

void writeAll(int fd, const std::string& s) {
  size_t off = 0;
  while (off < s.size()) {
    ssize_t n = ::write(fd, s.data() + off, s.size() - off);
    if (n <= 0) {
      if (errno == EINTR)
        continue;
      break;
    }
    off += (size_t)n;
  }
}

void accumulateCase(Case& c) {
  ++g_acc.evaluations;
  g_acc.lastIndex = c.index;
  for (auto& k : c.classes)
    g_acc.classes[k.first] += k.second;
  uint64_t th = 0;
  if (g_isE1 && dsched_get_stats) {
    dsched_stats_t st;
    dsched_get_stats(&st);
    g_acc.points += st.points;
    g_acc.switches += st.switches;
    g_acc.jumps += st.time_jumps;
    g_acc.spurious += st.spurious;
    g_acc.wakeChoices += st.wake_choices;
    th = st.trace_hash;
  }
  if (c.nontrivial) {
    uint64_t h = c.p.hash() ^ (th * 0x9E3779B97F4A7C15ull) ^ (c.extraHash * 0xC2B2AE3D27D4EB4Full);
    g_acc.ntHashes.push_back(h);
    if (g_acc.samples.size() < 2) {
      std::string s = c.p.dump();
      if (!c.sample.empty())
        s += " | " + c.sample;
      if (g_isE1 && dsched_trace_tail) {
        std::string t = dsched_trace_tail();
        if (t.size() > 160)
          t = t.substr(t.size() - 160);
        s += " | sched: " + t;
      }
      g_acc.samples.push_back(oneLine(s));
    }
  }
}

std::string accRecord() {
  std::ostringstream o;
  o << "N " << g_acc.evaluations << "\n";
  o << "T " << g_acc.points << " " << g_acc.switches << " " << g_acc.jumps << " " << g_acc.spurious << " "
    << g_acc.wakeChoices << "\n";
  for (uint64_t h : g_acc.ntHashes)
    o << "H " << std::hex << h << std::dec << "\n";
  for (auto& k : g_acc.classes)
    o << "K " << k.first << " " << k.second << "\n";
  for (auto& s : g_acc.samples)
    o << "S " << s << "\n";
  o << "E " << g_acc.lastIndex << "\n";
  return o.str();
}

[[noreturn]] void finishChild(const std::string& extra) {
  std::string r = accRecord() + extra;
  writeAll(g_outFd, r);
  _exit(0);
}

void cbDeadlock(const char* table) {
  if (g_case)
    g_case->fail(g_case->phase.empty() ? "deadlock" : "deadlock@" + g_case->phase, table);
  _exit(3);
}
void cbLivelock(const char* table, int confirmed) {
  if (g_case) {
    if (confirmed)
      g_case->fail(g_case->phase.empty() ? "livelock" : "livelock@" + g_case->phase, table);
    g_case->inconclusive(std::string("step-budget ") + table);
  }
  _exit(5);
}

double nowS() {
  timespec ts;
  syscall(SYS_clock_gettime, CLOCK_MONOTONIC, &ts);
  return (double)ts.tv_sec + ts.tv_nsec * 1e-9;
}

std::string jsonEsc(const std::string& s) {
  std::string o;
  for (unsigned char c : s) {
    if (c == '"' || c == '\\') {
      o += '\\';
      o += (char)c;
    } else if (c < 0x20) {
      char b[8];
      snprintf(b, sizeof b, "\\u%04x", c);
      o += b;
    } else
      o += (char)c;
  }
  return o;
}

void addSched(Rng& rng, KV& kv) {
  if (!kv.has("ss"))
    kv.setu("ss", rng.next() >> 1);
  if (!kv.has("si"))
    kv.set("si", rng.pick<long>({2, 3, 4, 8, 16, 32, 64, 256}));
  if (!kv.has("st")) {
    long r = rng.range(0, 99);
    kv.set("st", r < 70 ? 0L : r < 85 ? 1L : 2L);
  }
  if (!kv.has("sp")) {
    long r = rng.range(0, 99);
    kv.set("sp", r < 70 ? 0L : r < 85 ? 6L : 40L);
  }
}

struct Failure {
  std::string verdict, sig, msg, kv;
  uint64_t index;
};

struct Child {
  pid_t pid = -1;
  int fd = -1;
  int errFd = -1;
  std::string buf;
  uint64_t from = 0, to = 0; // case range [from,to)
  double started = 0;
  char* slot = nullptr;
};

} // namespace

Case* current() {
  return g_case;
}

} // namespace vf
// Sanitizer defaults for the native variants (looked up by the runtimes by name; unused elsewhere). A report ends
// the child at once, so that it is attributed to the case that was running; NewThreadInvoker threads are joined
// by the library at process exit, which a child that _exits never reaches: no thread-leak reports.
extern "C" const char* __tsan_default_options() {
  return "halt_on_error=1:report_thread_leaks=0:exitcode=66:second_deadlock_stack=1";
}
extern "C" const char* __asan_default_options() {
  return "detect_leaks=1:detect_stack_use_after_return=1:exitcode=67";
}
extern "C" int __lsan_do_recoverable_leak_check(void) __attribute__((weak));
namespace vf {
bool g_sanOnly = false; // --san-only: the sanitizer is the oracle; semantic verdicts are recorded as inconclusive
void Case::fail(const std::string& sig0, const std::string& msg0) {
  if (g_sanOnly)
    inconclusive("semantic-verdict-not-used-here:" + sig0 + " " + msg0);
  // a case may declare a signature class ("sigclass" parameter): every failure of such a case is
  // reported under that class (the concrete signature moves into the message). Used for input
  // regions that are listed as one known finding.
  std::string sig = sig0, msg = msg0;
  if (p.has("sigclass")) {
    sig = p.s("sigclass");
    msg = "[" + sig0 + "] " + msg0;
  }
  std::string v = isKnown(sig) ? "known" : "fail";
  accumulateCase(*this);
  std::string tail;
  if (g_isE1 && dsched_trace_tail)
    tail = std::string(" | sched: ") + dsched_trace_tail();
  std::ostringstream o;
  o << "F " << v << "\x1f" << oneLine(sig) << "\x1f" << oneLine(msg + tail) << "\x1f" << oneLine(p.dump()) << "\x1f" << index
    << "\n";
  finishChild(o.str());
}

void Case::inconclusive(const std::string& why) {
  accumulateCase(*this);
  std::ostringstream o;
  o << "F inc\x1f" << oneLine(why.substr(0, 60)) << "\x1f" << oneLine(why) << "\x1f" << oneLine(p.dump()) << "\x1f" << index
    << "\n";
  finishChild(o.str());
}

static long g_caseAlarmS = 0;
static void runOneInChild(const Prop& prop, Case& c) {
  g_case = &c;
  if (g_caseAlarmS > 0)
    alarm((unsigned)g_caseAlarmS);
  if (g_slot) {
    std::string d = c.p.dump();
    size_t n = std::min(d.size(), kSlotSize - 16);
    memcpy(g_slot + 8, d.data(), n);
    g_slot[8 + n] = 0;
    memcpy(g_slot, &c.index, 8);
  }
  if ((prop.flags & kE1) && dsched_begin) {
    dsched_cfg cfg;
    memset(&cfg, 0, sizeof cfg);
    cfg.seed = c.p.u("ss", 1);
    cfg.switch_inv = (unsigned)c.p.i("si", 16);
    cfg.strategy = (unsigned)c.p.i("st", 0);
    cfg.spurious_inv = (unsigned)c.p.i("sp", 0);
    cfg.max_points = c.p.u("mp", 0);
    cfg.fair_points = c.p.u("fp", 0);
    cfg.est_points = c.p.u("ep", 4000);
    cfg.pct_depth = (unsigned)c.p.i("pd", 3);
    cfg.poison_heap = (unsigned)c.p.i("ph", 1);
    cfg.tick_ns = (unsigned)c.p.i("tk", 0);
    dsched_on_deadlock(cbDeadlock);
    dsched_on_livelock(cbLivelock);
    dsched_begin(&cfg);
    prop.run(c);
    dsched_end();
    char hb[256];
    if (dsched_check_heap && dsched_check_heap(hb, sizeof hb))
      c.fail("write-after-free", hb);
  } else {
    prop.run(c);
    // leak check per case (ASan builds): everything the case allocated must be freed or still reachable
    if (g_sanOnly && __lsan_do_recoverable_leak_check && __lsan_do_recoverable_leak_check()) {
      fprintf(stderr, "ERROR: LeakSanitizer: memory leaked by this case\n");
      _exit(68);
    }
  }
  accumulateCase(c);
  g_case = nullptr;
}

int runMain(int argc, char** argv, const Prop* props, int nprops) {
  // Address-space layout randomisation off (re-exec once): heap/stack addresses feed hash tables in
  // the code under test (moodycamel's implicit-producer hash), so replay by parameters is only
  // bit-for-bit reproducible with a fixed layout.
  if (!getenv("VF_NO_REEXEC")) {
    int pers = personality(0xffffffff);
    if (pers != -1 && !(pers & ADDR_NO_RANDOMIZE)) {
      if (personality((unsigned long)pers | ADDR_NO_RANDOMIZE) != -1) {
        setenv("VF_NO_REEXEC", "1", 1);
        execv("/proc/self/exe", argv);
      }
    }
  }
  std::string propId, part, tier = "quick", knownStr, replayKv;
  uint64_t seed = 1;
  long cases = -1;
  int jobs = 16;
  long timeoutS = 0;
  bool list = false;
  double budgetS = 0; // optional wall-clock budget: stop launching new cases (reported as such)
  long replaySeeds = 1;     // replay: also try this many other schedule seeds for the same parameters
  bool keepGoing = false;   // survey mode: do not stop at the first failure, count signatures
  bool stopOnKnown = false; // stop at the first failure matching a known signature (demonstrations)
  for (int i = 1; i < argc; ++i) {
    std::string a = argv[i];
    auto nxt = [&]() -> std::string { return (i + 1 < argc) ? argv[++i] : ""; };
    if (a == "--prop")
      propId = nxt();
    else if (a == "--part")
      part = nxt();
    else if (a == "--seed")
      seed = strtoull(nxt().c_str(), nullptr, 10);
    else if (a == "--cases")
      cases = strtol(nxt().c_str(), nullptr, 10);
    else if (a == "--jobs")
      jobs = atoi(nxt().c_str());
    else if (a == "--tier")
      tier = nxt();
    else if (a == "--known")
      knownStr = nxt();
    else if (a == "--replay-kv")
      replayKv = nxt();
    else if (a == "--timeout")
      timeoutS = strtol(nxt().c_str(), nullptr, 10);
    else if (a == "--budget")
      budgetS = strtod(nxt().c_str(), nullptr);
    else if (a == "--case-alarm")
      g_caseAlarmS = strtol(nxt().c_str(), nullptr, 10);
    else if (a == "--replay-seeds")
      replaySeeds = strtol(nxt().c_str(), nullptr, 10);
    else if (a == "--san-only")
      g_sanOnly = true;
    else if (a == "--keep-going")
      keepGoing = true;
    else if (a == "--stop-on-known")
      stopOnKnown = true;
    else if (a == "--list")
      list = true;
  }
  if (list) {
    for (int i = 0; i < nprops; ++i)
      printf("%s %s %s %ld %ld\n", props[i].id, props[i].part, (props[i].flags & kE1) ? "e1" : "native",
             props[i].quickCases, props[i].thoroughCases);
    return 0;
  }
  const Prop* prop = nullptr;
  for (int i = 0; i < nprops; ++i)
    if (propId == props[i].id && (part.empty() || part == props[i].part)) {
      prop = &props[i];
      break;
    }
  if (!prop) {
    fprintf(stderr, "unknown prop/part %s/%s\n", propId.c_str(), part.c_str());
    return 2;
  }
  Opts opts;
  opts.tier = tier;
  std::vector<std::string> known;
  {
    size_t i = 0;
    while (i < knownStr.size()) {
      size_t j = knownStr.find('|', i);
      if (j == std::string::npos)
        j = knownStr.size();
      if (j > i)
        known.push_back(knownStr.substr(i, j - i));
      i = j + 1;
    }
  }
  opts.known = known;
  bool replay = !replayKv.empty();
  if (cases < 0)
    cases = opts.thorough() ? prop->thoroughCases : prop->quickCases;
  if (replay)
    cases = replaySeeds > 0 ? replaySeeds : 1;
  // a harness written for the schedule explorer, built for a native variant (dsched_native.cpp): real threads
  g_isE1 = (prop->flags & kE1) != 0 && dsched_begin;
  if (!timeoutS)
    timeoutS = g_isE1 ? 120 : 900;
  if (!g_isE1 && !g_caseAlarmS)
    g_caseAlarmS = 20; // native: SIGALRM attributes a hang to its case ("crash:Alarm clock")
  if (jobs < 1)
    jobs = 1;

  double t0 = nowS();
  // batch size
  uint64_t total = (uint64_t)cases;
  uint64_t batch = 1;
  if (!g_isE1) {
    batch = std::max<uint64_t>(1, total / (uint64_t)(jobs * 4));
    if (batch > 20000)
      batch = 20000;
  }
  std::vector<Child> running;
  uint64_t nextCase = 0;
  std::vector<std::pair<uint64_t, uint64_t>> pending; // re-queued ranges after a terminal record

  // aggregated
  uint64_t evaluations = 0, points = 0, switches = 0, jumps = 0, spuriousN = 0, wakeChoices = 0;
  std::set<uint64_t> nt;
  std::map<std::string, long> classes;
  std::vector<std::string> samples;
  std::vector<Failure> failures;
  std::map<std::string, long> knownHits, incReasons, failSigs;
  long inconclusiveN = 0, crashes = 0;
  bool stop = false;
  bool budgetHit = false;

  auto launch = [&](uint64_t from, uint64_t to) {
    int pfd[2];
    if (pipe(pfd) != 0) {
      perror("pipe");
      exit(2);
    }
    int efd = (int)syscall(SYS_memfd_create, "vferr", 0);
    char* slot = (char*)mmap(nullptr, kSlotSize, PROT_READ | PROT_WRITE, MAP_SHARED | MAP_ANONYMOUS, -1, 0);
    memset(slot, 0, 16);
    uint64_t none = ~0ull;
    memcpy(slot, &none, 8);
    fflush(stdout);
    fflush(stderr);
    pid_t pid = fork();
    if (pid == 0) {
      close(pfd[0]);
      prctl(PR_SET_PDEATHSIG, SIGKILL);
      g_outFd = pfd[1];
      g_slot = slot;
      if (efd >= 0 && !getenv("VF_DEBUG"))
        dup2(efd, 2);
      struct rlimit rl = {0, 0};
      setrlimit(RLIMIT_CORE, &rl);
      for (uint64_t idx = from; idx < to; ++idx) {
        Case c;
        c.index = idx;
        c.known = known;
        c.replayMode = replay;
        if (replay) {
          c.p = KV::parse(replayKv);
          if (idx > 0) { // same program, other generated schedules
            Rng rr(seed * 7777ull + idx);
            c.p.setu("ss", rr.next() >> 1);
            c.p.set("si", rr.pick<long>({2, 3, 4, 8, 16, 32, 64}));
          }
        } else {
          Rng rng(seed * 1000003ull + idx * 7919ull + 17);
          prop->gen(rng, c.p, opts);
          if (g_isE1)
            addSched(rng, c.p);
        }
        runOneInChild(*prop, c);
      }
      finishChild("");
    }
    close(pfd[1]);
    Child ch;
    ch.pid = pid;
    ch.fd = pfd[0];
    ch.errFd = efd;
    ch.from = from;
    ch.to = to;
    ch.started = nowS();
    ch.slot = slot;
    fcntl(ch.fd, F_SETFL, O_NONBLOCK);
    running.push_back(ch);
  };

  auto handleDone = [&](Child& ch, int status, bool killedByWatchdog) {
    // parse buffer
    bool sawE = false;
    uint64_t lastIdx = ch.from;
    bool terminal = false;
    std::istringstream in(ch.buf);
    std::string line;
    while (std::getline(in, line)) {
      if (line.size() < 2)
        continue;
      char t = line[0];
      std::string rest = line.substr(2);
      if (t == 'N')
        evaluations += strtoull(rest.c_str(), nullptr, 10);
      else if (t == 'T') {
        unsigned long a, b, c, d, e;
        if (sscanf(rest.c_str(), "%lu %lu %lu %lu %lu", &a, &b, &c, &d, &e) == 5) {
          points += a;
          switches += b;
          jumps += c;
          spuriousN += d;
          wakeChoices += e;
        }
      } else if (t == 'H')
        nt.insert(strtoull(rest.c_str(), nullptr, 16));
      else if (t == 'K') {
        size_t sp = rest.rfind(' ');
        if (sp != std::string::npos)
          classes[rest.substr(0, sp)] += strtol(rest.c_str() + sp + 1, nullptr, 10);
      } else if (t == 'S') {
        if (samples.size() < 5)
          samples.push_back(rest);
      } else if (t == 'E') {
        sawE = true;
        lastIdx = strtoull(rest.c_str(), nullptr, 10);
      } else if (t == 'F') {
        std::vector<std::string> f;
        size_t i = 0;
        while (true) {
          size_t j = rest.find('\x1f', i);
          if (j == std::string::npos) {
            f.push_back(rest.substr(i));
            break;
          }
          f.push_back(rest.substr(i, j - i));
          i = j + 1;
        }
        if (f.size() >= 5) {
          terminal = true;
          uint64_t idx = strtoull(f[4].c_str(), nullptr, 10);
          if (f[0] == "known") {
            knownHits[f[1]]++;
            if (stopOnKnown)
              stop = true;
          }
          else if (f[0] == "inc") {
            ++inconclusiveN;
            incReasons[f[1]]++;
          } else {
            failSigs[f[1]]++;
            if (failures.size() < (keepGoing ? 600u : 20u))
              failures.push_back(Failure{f[0], f[1], f[2], f[3], idx});
            if (!keepGoing)
              stop = true;
          }
        }
      }
    }
    bool normal = WIFEXITED(status) && WEXITSTATUS(status) == 0 && sawE;
    if (!normal) {
      // crash / abort / watchdog: attribute to the case in the shared slot
      uint64_t idx;
      memcpy(&idx, ch.slot, 8);
      std::string kv = ch.slot + 8;
      std::string err;
      if (ch.errFd >= 0) {
        char eb[4096];
        off_t sz = lseek(ch.errFd, 0, SEEK_END);
        // head (the sanitizer's first line names the error) + tail (summary)
        if (sz > 3600) {
          lseek(ch.errFd, 0, SEEK_SET);
          ssize_t n0 = read(ch.errFd, eb, 1200);
          if (n0 > 0) {
            eb[n0] = 0;
            err = std::string(eb) + "\n ... \n";
          }
        }
        off_t st = sz > 2400 ? sz - 2400 : 0;
        lseek(ch.errFd, st, SEEK_SET);
        ssize_t n = read(ch.errFd, eb, sizeof eb - 1);
        if (n > 0) {
          eb[n] = 0;
          err += eb;
        }
      }
      if (idx == ~0ull)
        idx = ch.from;
      lastIdx = idx;
      terminal = true;
      if (killedByWatchdog) {
        ++inconclusiveN;
        incReasons["watchdog"]++;
      } else if (g_sanOnly && WIFSIGNALED(status) && WTERMSIG(status) == SIGALRM) {
        ++inconclusiveN;
        incReasons["case-alarm (harness relies on virtual time)"]++;
      } else {
        ++evaluations;
        ++crashes;
        std::string sig;
        if (WIFSIGNALED(status))
          sig = std::string("crash:") + strsignal(WTERMSIG(status));
        else
          sig = "exit:" + std::to_string(WEXITSTATUS(status));
        // refine signature with the first assertion / sanitizer line
        std::string key;
        {
          std::istringstream es(err);
          std::string l;
          while (std::getline(es, l)) {
            if (l.find("Assertion") != std::string::npos || l.find("runtime error") != std::string::npos ||
                l.find("ERROR: AddressSanitizer") != std::string::npos || l.find("terminate called") != std::string::npos ||
                l.find("what():") != std::string::npos || l.find("ThreadSanitizer") != std::string::npos ||
                l.find("LeakSanitizer") != std::string::npos) {
              if (key.empty())
                key = l;
              if (l.find("SUMMARY:") != std::string::npos) { // names the location: the better signature
                key = l;
                break;
              }
            }
          }
        }
        if (!key.empty()) {
          // the operands quoted by UBSan vary from case to case: keep file:line and the kind of error only
          size_t re = key.find("runtime error:");
          if (re != std::string::npos) {
            std::string head = key.substr(0, re + 14), tail;
            for (size_t i = re + 14; i < key.size(); ++i) {
              if (isdigit((unsigned char)key[i])) {
                while (i + 1 < key.size() && isdigit((unsigned char)key[i + 1]))
                  ++i;
                tail += 'N';
              } else
                tail += key[i];
            }
            key = head + tail;
          }
          size_t pp = key.find("(pid=");
          if (pp != std::string::npos)
            key = key.substr(0, pp);
          // strip addresses / pids to keep the signature stable
          std::string k2;
          for (size_t i = 0; i < key.size() && k2.size() < 140; ++i) {
            if (key[i] == '0' && i + 1 < key.size() && key[i + 1] == 'x') {
              while (i < key.size() && !isspace((unsigned char)key[i]))
                ++i;
              k2 += "0x..";
              if (i < key.size())
                k2 += key[i];
            } else
              k2 += key[i];
          }
          sig += ":" + oneLine(k2);
        }
        std::string rawSig = sig;
        {
          KV ckv = KV::parse(kv);
          if (ckv.has("sigclass"))
            sig = ckv.s("sigclass");
        }
        bool isKnown = false;
        for (auto& k : known)
          if (k == sig)
            isKnown = true;
        if (isKnown)
          knownHits[sig]++;
        else {
          failSigs[sig]++;
          if (failures.size() < (keepGoing ? 600u : 20u))
            failures.push_back(Failure{"fail", sig, "[" + rawSig + "] " + oneLine(err.substr(err.size() > 1500 ? err.size() - 1500 : 0)), kv, idx});
          if (!keepGoing)
            stop = true;
        }
      }
    }
    if (terminal && lastIdx + 1 < ch.to)
      pending.emplace_back(lastIdx + 1, ch.to);
    close(ch.fd);
    if (ch.errFd >= 0)
      close(ch.errFd);
    munmap(ch.slot, kSlotSize);
  };

  while (true) {
    // launch
    while (!stop && (int)running.size() < jobs) {
      if (budgetS > 0 && nowS() - t0 > budgetS) {
        budgetHit = true;
        break;
      }
      if (!pending.empty()) {
        auto r = pending.back();
        pending.pop_back();
        launch(r.first, r.second);
      } else if (nextCase < total) {
        uint64_t to = std::min(total, nextCase + batch);
        launch(nextCase, to);
        nextCase = to;
      } else
        break;
    }
    if (running.empty())
      break;
    std::vector<pollfd> pfds;
    for (auto& ch : running)
      pfds.push_back(pollfd{ch.fd, POLLIN, 0});
    poll(pfds.data(), pfds.size(), 200);
    for (size_t i = 0; i < running.size();) {
      Child& ch = running[i];
      bool eof = false;
      char b[65536];
      for (;;) {
        ssize_t n = read(ch.fd, b, sizeof b);
        if (n > 0)
          ch.buf.append(b, (size_t)n);
        else if (n == 0) {
          eof = true;
          break;
        } else
          break;
      }
      bool wd = false;
      if (!eof && nowS() - ch.started > (double)timeoutS) {
        kill(ch.pid, SIGKILL);
        wd = true;
        eof = true;
      }
      if (eof) {
        int status = 0;
        waitpid(ch.pid, &status, 0);
        // drain anything left
        for (;;) {
          ssize_t n = read(ch.fd, b, sizeof b);
          if (n > 0)
            ch.buf.append(b, (size_t)n);
          else
            break;
        }
        handleDone(ch, status, wd);
        running.erase(running.begin() + (long)i);
      } else
        ++i;
    }
  }

  double wall = nowS() - t0;
  std::ostringstream o;
  o << "{\"prop\":\"" << prop->id << "\",\"part\":\"" << prop->part << "\",\"engine\":\"" << (g_isE1 ? "E1-dsched" : "native")
    << "\",\"seed\":" << seed << ",\"tier\":\"" << tier << "\",\"requested\":" << total << ",\"evaluations\":" << evaluations
    << ",\"distinct_nontrivial\":" << nt.size() << ",\"rule\":\"" << jsonEsc(prop->ntRule ? prop->ntRule : "") << "\""
    << ",\"points\":" << points << ",\"switches\":" << switches << ",\"time_jumps\":" << jumps << ",\"spurious_wakes\":" << spuriousN
    << ",\"wake_choices\":" << wakeChoices << ",\"inconclusive\":" << inconclusiveN << ",\"crashes\":" << crashes
    << ",\"budget_hit\":" << (budgetHit ? "true" : "false") << ",\"wall_s\":" << wall;
  o << ",\"classes\":{";
  bool first = true;
  for (auto& k : classes) {
    o << (first ? "" : ",") << "\"" << jsonEsc(k.first) << "\":" << k.second;
    first = false;
  }
  o << "},\"inconclusive_reasons\":{";
  first = true;
  for (auto& k : incReasons) {
    o << (first ? "" : ",") << "\"" << jsonEsc(k.first) << "\":" << k.second;
    first = false;
  }
  o << "},\"known_hits\":{";
  first = true;
  for (auto& k : knownHits) {
    o << (first ? "" : ",") << "\"" << jsonEsc(k.first) << "\":" << k.second;
    first = false;
  }
  o << "},\"fail_sigs\":{";
  first = true;
  for (auto& k : failSigs) {
    o << (first ? "" : ",") << "\"" << jsonEsc(k.first) << "\":" << k.second;
    first = false;
  }
  o << "},\"samples\":[";
  first = true;
  for (auto& s : samples) {
    o << (first ? "" : ",") << "\"" << jsonEsc(s) << "\"";
    first = false;
  }
  o << "],\"failures\":[";
  first = true;
  for (auto& f : failures) {
    o << (first ? "" : ",") << "{\"sig\":\"" << jsonEsc(f.sig) << "\",\"msg\":\"" << jsonEsc(f.msg) << "\",\"kv\":\"" << jsonEsc(f.kv)
      << "\",\"index\":" << f.index << "}";
    first = false;
  }
  o << "]}";
  printf("%s\n", o.str().c_str());
  fflush(stdout);
  return failures.empty() ? 0 : 1;
}

} // namespace vf
