// vrc — rapidcheck-driven case runner (engine E2). rapidcheck generates and SHRINKS structured cases;
// the check itself is a plain function over the case, so a failure is replayed from its text form
// without the library (`--replay-kv <text>`). Output protocol = vf_runner's JSON summary line, so
// bin/check treats both runners alike. 16 child processes, each an independent rc::check run with
// seed VERIF_SEED*16+k; a crash (sanitizer report, assertion) is attributed to the case in a shared slot.
#pragma once
#include <rapidcheck.h>

#include <algorithm>
#include <cstdint>
#include <cstdio>
#include <cstdlib>
#include <cstring>
#include <fcntl.h>
#include <functional>
#include <map>
#include <memory>
#include <poll.h>
#include <set>
#include <sstream>
#include <string>
#include <sys/mman.h>
#include <sys/prctl.h>
#include <sys/resource.h>
#include <sys/syscall.h>
#include <sys/wait.h>
#include <time.h>
#include <unistd.h>
#include <vector>

namespace vrc {

struct Outcome {
  bool ok = true;
  std::string sig, msg;
  bool nontrivial = false;
  std::vector<std::string> classes;
  static Outcome fail(const std::string& s, const std::string& m) {
    Outcome o;
    o.ok = false;
    o.sig = s;
    o.msg = m;
    return o;
  }
};

struct Ctx {
  uint64_t evals = 0;
  std::set<uint64_t> nt;
  std::map<std::string, long> classes;
  std::vector<std::string> samples;
  std::map<std::string, long> knownHits;
  bool failed = false;
  std::string fsig, fmsg, ftext;
  uint64_t shrinkRuns = 0;
  std::vector<std::string> known;
  char* slot = nullptr;
  int shard = 0, nshards = 1;
  long cases = 0; // requested number of cases for this child (enumerations: total over all shards)
  bool isKnown(const std::string& s) const {
    return std::find(known.begin(), known.end(), s) != known.end();
  }
};
constexpr size_t kSlot = 1 << 16;

inline uint64_t fnv(const std::string& s) {
  uint64_t h = 1469598103934665603ull;
  for (unsigned char c : s)
    h = (h ^ c) * 1099511628211ull;
  return h;
}
inline std::string oneLine(std::string s) {
  for (char& c : s)
    if (c == '\n' || c == '\r' || c == '\x1f')
      c = ' ';
  return s;
}

struct PropBase {
  const char* id;
  const char* part;
  long quick, thorough;
  int sizeQuick, sizeThorough;
  const char* ntRule;
  bool enumerated = false; // finite space visited completely (EnumProp)
  bool exhaustiveQuick = true; // false: only the thorough tier visits every point
  virtual ~PropBase() {}
  virtual bool search(Ctx& cx, bool thorough) = 0;
  virtual Outcome replay(const std::string& text) = 0;
};

template <typename T>
struct PropT : PropBase {
  std::function<rc::Gen<T>(bool)> gen;
  std::function<std::string(const T&)> text;
  std::function<T(const std::string&)> parse;
  std::function<Outcome(const T&)> run;
  bool search(Ctx& cx, bool thorough) override {
    return rc::check(std::string(id) + "/" + part, [&]() {
      T v = *gen(thorough);
      std::string t = text(v);
      alarm(15); // a case that never returns (hang / livelock in the code under test) kills the child: attributed to this case
      if (cx.slot) {
        size_t n = std::min(t.size(), kSlot - 1);
        memcpy(cx.slot, t.data(), n);
        cx.slot[n] = 0;
      }
      Outcome o = run(v);
      ++cx.evals;
      if (cx.failed)
        ++cx.shrinkRuns;
      for (auto& k : o.classes)
        cx.classes[k]++;
      if (o.nontrivial) {
        cx.nt.insert(fnv(t));
        if (cx.samples.size() < 2)
          cx.samples.push_back(oneLine(t).substr(0, 600));
      }
      if (!o.ok) {
        if (cx.isKnown(o.sig)) {
          cx.knownHits[o.sig]++; // listed finding: counted, search continues behind it
          return;
        }
        cx.failed = true; // during shrinking every smaller failing case overwrites: the last one is minimal
        cx.fsig = o.sig;
        cx.fmsg = o.msg;
        cx.ftext = t;
        RC_FAIL(o.msg);
      }
    });
  }
  Outcome replay(const std::string& t) override {
    return run(parse(t));
  }
};

// Deterministic enumeration of a finite space (exhaustive sweeps): case i of `total`, sharded over
// the children. `exhaustive` is reported when every index was visited.
struct EnumProp : PropBase {
  std::function<uint64_t(bool)> total;
  std::function<Outcome(uint64_t, bool)> runIdx;
  bool search(Ctx& cx, bool thorough) override {
    uint64_t n = total(thorough);
    for (uint64_t i = (uint64_t)cx.shard; i < n; i += (uint64_t)cx.nshards) {
      std::string t = std::to_string(i) + (thorough ? " T" : " Q");
      if (cx.slot)
        strcpy(cx.slot, t.c_str());
      alarm(120);
      Outcome o = runIdx(i, thorough);
      ++cx.evals;
      for (auto& k : o.classes)
        cx.classes[k]++;
      if (o.nontrivial) {
        cx.nt.insert(fnv(t));
        if (cx.samples.size() < 2)
          cx.samples.push_back(t + " | " + o.msg);
      }
      if (!o.ok) {
        if (cx.isKnown(o.sig)) {
          cx.knownHits[o.sig]++;
          continue;
        }
        cx.failed = true;
        cx.fsig = o.sig;
        cx.fmsg = o.msg;
        cx.ftext = t;
        return false;
      }
    }
    return true;
  }
  Outcome replay(const std::string& t) override {
    return runIdx(strtoull(t.c_str(), nullptr, 10), t.find('T') != std::string::npos);
  }
};
inline std::unique_ptr<PropBase> makeEnum(const char* id, const char* part, const char* ntRule, std::function<uint64_t(bool)> total,
                                          std::function<Outcome(uint64_t, bool)> runIdx) {
  auto p = std::make_unique<EnumProp>();
  p->id = id;
  p->part = part;
  p->quick = p->thorough = 1000000000; // enumerations ignore case counts
  p->sizeQuick = p->sizeThorough = 0;
  p->ntRule = ntRule;
  p->total = total;
  p->runIdx = runIdx;
  p->enumerated = true;
  return p;
}

template <typename T>
std::unique_ptr<PropBase> make(
    const char* id,
    const char* part,
    long quick,
    long thorough,
    int sizeQ,
    int sizeT,
    const char* ntRule,
    std::function<rc::Gen<T>(bool)> gen,
    std::function<std::string(const T&)> text,
    std::function<T(const std::string&)> parse,
    std::function<Outcome(const T&)> run) {
  auto p = std::make_unique<PropT<T>>();
  p->id = id;
  p->part = part;
  p->quick = quick;
  p->thorough = thorough;
  p->sizeQuick = sizeQ;
  p->sizeThorough = sizeT;
  p->ntRule = ntRule;
  p->gen = gen;
  p->text = text;
  p->parse = parse;
  p->run = run;
  return p;
}

inline std::string jsonEsc(const std::string& s) {
  std::string o;
  for (unsigned char c : s) {
    if (c == '"' || c == '\\') {
      o += '\\';
      o += (char)c;
    } else if (c < 0x20) {
      char b[8];
      snprintf(b, sizeof b, "\\u%04x", c);
      o += b;
    } else
      o += (char)c;
  }
  return o;
}
inline double nowS() {
  timespec ts;
  clock_gettime(CLOCK_MONOTONIC, &ts);
  return (double)ts.tv_sec + ts.tv_nsec * 1e-9;
}

inline int runMain(int argc, char** argv, std::vector<std::unique_ptr<PropBase>>& props) {
  std::string propId, part, tier = "quick", knownStr, replayText;
  uint64_t seed = 1;
  long cases = -1;
  int jobs = 16;
  bool haveReplay = false;
  for (int i = 1; i < argc; ++i) {
    std::string a = argv[i];
    auto nxt = [&]() -> std::string { return (i + 1 < argc) ? argv[++i] : ""; };
    if (a == "--prop")
      propId = nxt();
    else if (a == "--part")
      part = nxt();
    else if (a == "--seed")
      seed = strtoull(nxt().c_str(), nullptr, 10);
    else if (a == "--cases")
      cases = strtol(nxt().c_str(), nullptr, 10);
    else if (a == "--jobs")
      jobs = atoi(nxt().c_str());
    else if (a == "--tier")
      tier = nxt();
    else if (a == "--known")
      knownStr = nxt();
    else if (a == "--replay-kv") {
      replayText = nxt();
      haveReplay = true;
    } else if (a == "--budget" || a == "--timeout" || a == "--replay-seeds")
      nxt();
  }
  PropBase* prop = nullptr;
  for (auto& p : props)
    if (propId == p->id && (part.empty() || part == p->part)) {
      prop = p.get();
      break;
    }
  if (!prop) {
    fprintf(stderr, "unknown prop/part %s/%s\n", propId.c_str(), part.c_str());
    return 2;
  }
  std::vector<std::string> known;
  {
    size_t i = 0;
    while (i < knownStr.size()) {
      size_t j = knownStr.find('|', i);
      if (j == std::string::npos)
        j = knownStr.size();
      if (j > i)
        known.push_back(knownStr.substr(i, j - i));
      i = j + 1;
    }
  }
  bool thorough = tier == "thorough";
  if (cases < 0)
    cases = thorough ? prop->thorough : prop->quick;
  double t0 = nowS();
  if (jobs < 1)
    jobs = 1;
  if (haveReplay)
    jobs = 1;
  if (cases < jobs * 20)
    jobs = (int)std::max<long>(1, cases / 20);

  struct Child {
    pid_t pid;
    int fd;
    char* slot;
    std::string buf;
    bool done = false;
  };
  std::vector<Child> kids;
  for (int k = 0; k < jobs; ++k) {
    int pfd[2];
    if (pipe(pfd) != 0)
      return 2;
    char* slot = (char*)mmap(nullptr, kSlot, PROT_READ | PROT_WRITE, MAP_SHARED | MAP_ANONYMOUS, -1, 0);
    slot[0] = 0;
    fflush(stdout);
    fflush(stderr);
    pid_t pid = fork();
    if (pid == 0) {
      close(pfd[0]);
      prctl(PR_SET_PDEATHSIG, SIGKILL);
      struct rlimit rl = {0, 0};
      setrlimit(RLIMIT_CORE, &rl);
      int efd = (int)syscall(SYS_memfd_create, "vrcerr", 0);
      (void)efd;
      Ctx cx;
      cx.known = known;
      cx.slot = slot;
      cx.shard = k;
      cx.nshards = jobs;
      std::ostringstream o;
      if (haveReplay) {
        size_t n = std::min(replayText.size(), kSlot - 1);
        memcpy(slot, replayText.data(), n);
        slot[n] = 0;
        alarm(prop->enumerated ? 120 : 15);
        Outcome oc = prop->replay(replayText);
        cx.evals = 1;
        if (!oc.ok) {
          if (cx.isKnown(oc.sig))
            cx.knownHits[oc.sig]++;
          else {
            cx.failed = true;
            cx.fsig = oc.sig;
            cx.fmsg = oc.msg;
            cx.ftext = replayText;
          }
        }
      } else {
        long share = cases / jobs + (k < cases % jobs ? 1 : 0);
        char buf[256];
        snprintf(buf, sizeof buf, "seed=%llu max_success=%ld max_size=%d max_discard_ratio=20", (unsigned long long)(seed * 64 + (uint64_t)k + 1), share,
                 thorough ? prop->sizeThorough : prop->sizeQuick);
        setenv("RC_PARAMS", buf, 1);
        if (!getenv("VF_DEBUG")) {
          int dn = open("/dev/null", 1);
          if (dn >= 0)
            dup2(dn, 2); // rapidcheck's own progress / counterexample dump (ours goes over the pipe)
        }
        prop->search(cx, thorough);
      }
      o << "N " << cx.evals << " " << cx.shrinkRuns << "\n";
      for (uint64_t h : cx.nt)
        o << "H " << std::hex << h << std::dec << "\n";
      for (auto& kx : cx.classes)
        o << "K " << kx.first << " " << kx.second << "\n";
      for (auto& s : cx.samples)
        o << "S " << s << "\n";
      for (auto& kx : cx.knownHits)
        o << "W " << kx.first << "\x1f" << kx.second << "\n";
      if (cx.failed)
        o << "F " << oneLine(cx.fsig) << "\x1f" << oneLine(cx.fmsg) << "\x1f" << oneLine(cx.ftext) << "\n";
      o << "E\n";
      std::string r = o.str();
      size_t off = 0;
      while (off < r.size()) {
        ssize_t n = ::write(pfd[1], r.data() + off, r.size() - off);
        if (n <= 0)
          break;
        off += (size_t)n;
      }
      _exit(0);
    }
    close(pfd[1]);
    kids.push_back(Child{pid, pfd[0], slot, "", false});
  }
  uint64_t evaluations = 0, shrinkRuns = 0;
  std::set<uint64_t> nt;
  std::map<std::string, long> classes, knownHits, failSigs;
  std::vector<std::string> samples;
  struct Fl {
    std::string sig, msg, text;
  };
  std::vector<Fl> failures;
  long crashes = 0;
  for (auto& ch : kids) {
    char b[65536];
    for (;;) {
      ssize_t n = read(ch.fd, b, sizeof b);
      if (n > 0)
        ch.buf.append(b, (size_t)n);
      else
        break;
    }
    int status = 0;
    waitpid(ch.pid, &status, 0);
    bool sawE = false;
    std::istringstream in(ch.buf);
    std::string line;
    while (std::getline(in, line)) {
      if (line == "E") {
        sawE = true;
        continue;
      }
      if (line.size() < 2)
        continue;
      char t = line[0];
      std::string rest = line.substr(2);
      if (t == 'N') {
        unsigned long a = 0, s2 = 0;
        sscanf(rest.c_str(), "%lu %lu", &a, &s2);
        evaluations += a;
        shrinkRuns += s2;
      } else if (t == 'H')
        nt.insert(strtoull(rest.c_str(), nullptr, 16));
      else if (t == 'K') {
        size_t sp = rest.rfind(' ');
        if (sp != std::string::npos)
          classes[rest.substr(0, sp)] += strtol(rest.c_str() + sp + 1, nullptr, 10);
      } else if (t == 'S') {
        if (samples.size() < 5)
          samples.push_back(rest);
      } else if (t == 'W') {
        size_t sp = rest.find('\x1f');
        if (sp != std::string::npos)
          knownHits[rest.substr(0, sp)] += strtol(rest.c_str() + sp + 1, nullptr, 10);
      } else if (t == 'F') {
        std::vector<std::string> f;
        size_t i = 0;
        while (true) {
          size_t j = rest.find('\x1f', i);
          if (j == std::string::npos) {
            f.push_back(rest.substr(i));
            break;
          }
          f.push_back(rest.substr(i, j - i));
          i = j + 1;
        }
        if (f.size() >= 3) {
          failSigs[f[0]]++;
          failures.push_back(Fl{f[0], f[1], f[2]});
        }
      }
    }
    if (!(WIFEXITED(status) && WEXITSTATUS(status) == 0 && sawE)) {
      ++crashes;
      ++evaluations;
      std::string sig = WIFSIGNALED(status) ? std::string("crash:") + strsignal(WTERMSIG(status)) : "exit:" + std::to_string(WEXITSTATUS(status));
      std::string text = ch.slot;
      bool isK = std::find(known.begin(), known.end(), sig) != known.end();
      if (isK)
        knownHits[sig]++;
      else {
        failSigs[sig]++;
        failures.push_back(Fl{sig, "child died while running this case (sanitizer report / assertion / signal); not shrunk", text});
      }
    }
    close(ch.fd);
    munmap(ch.slot, kSlot);
  }
  // shortest failing text first (the most shrunk)
  std::sort(failures.begin(), failures.end(), [](const Fl& a, const Fl& b) { return a.text.size() < b.text.size(); });
  std::ostringstream o;
  o << "{\"prop\":\"" << prop->id << "\",\"part\":\"" << prop->part << "\",\"engine\":\"E2-rapidcheck\",\"seed\":" << seed << ",\"tier\":\"" << tier
    << "\",\"requested\":" << cases << ",\"evaluations\":" << evaluations << ",\"distinct_nontrivial\":" << nt.size() << ",\"rule\":\""
    << jsonEsc(prop->ntRule ? prop->ntRule : "") << "\",\"shrink_runs\":" << shrinkRuns << ",\"inconclusive\":0,\"crashes\":" << crashes
    << ",\"budget_hit\":false,\"exhaustive\":" << ((prop->enumerated && (thorough || prop->exhaustiveQuick) && failures.empty() && crashes == 0) ? "true" : "false") << ",\"wall_s\":" << (nowS() - t0);
  auto dumpMap = [&](const char* name, const std::map<std::string, long>& m) {
    o << ",\"" << name << "\":{";
    bool first = true;
    for (auto& k : m) {
      o << (first ? "" : ",") << "\"" << jsonEsc(k.first) << "\":" << k.second;
      first = false;
    }
    o << "}";
  };
  dumpMap("classes", classes);
  o << ",\"inconclusive_reasons\":{}";
  dumpMap("known_hits", knownHits);
  dumpMap("fail_sigs", failSigs);
  o << ",\"samples\":[";
  for (size_t i = 0; i < samples.size(); ++i)
    o << (i ? "," : "") << "\"" << jsonEsc(samples[i]) << "\"";
  o << "],\"failures\":[";
  for (size_t i = 0; i < failures.size() && i < 20; ++i)
    o << (i ? "," : "") << "{\"sig\":\"" << jsonEsc(failures[i].sig) << "\",\"msg\":\"" << jsonEsc(failures[i].msg) << "\",\"kv\":\"" << jsonEsc(failures[i].text)
      << "\",\"index\":0}";
  o << "]}";
  printf("%s\n", o.str().c_str());
  fflush(stdout);
  return failures.empty() ? 0 : 1;
}

// ---- small text helpers for case serialisation: tokens separated by ' ', fields by ',' ----
inline std::vector<std::string> split(const std::string& s, char sep) {
  std::vector<std::string> out;
  size_t i = 0;
  while (i <= s.size()) {
    size_t j = s.find(sep, i);
    if (j == std::string::npos)
      j = s.size();
    if (j > i)
      out.push_back(s.substr(i, j - i));
    i = j + 1;
  }
  return out;
}

// edge-biased 64-bit generator (DESIGN §2.2): uniform | limits | 2^k+{-1,0,1} | small
inline rc::Gen<int64_t> edgeI64(int64_t lo, int64_t hi) {
  return rc::gen::map(rc::gen::tuple(rc::gen::inRange(0, 100), rc::gen::arbitrary<uint64_t>(), rc::gen::inRange(0, 63), rc::gen::inRange(-1, 2)),
                      [lo, hi](const std::tuple<int, uint64_t, int, int>& t) {
                        int sel = std::get<0>(t);
                        uint64_t u = std::get<1>(t);
                        unsigned __int128 span = (unsigned __int128)((__int128)hi - (__int128)lo) + 1;
                        __int128 v;
                        if (sel < 30)
                          v = (__int128)lo + (__int128)(u % span);
                        else if (sel < 45) {
                          const __int128 c[] = {(__int128)lo, (__int128)lo + 1, (__int128)hi, (__int128)hi - 1, 0, 1, -1, 2};
                          v = c[u % 8];
                        } else if (sel < 70) {
                          v = ((__int128)1 << std::get<2>(t)) + std::get<3>(t);
                          if (u & 1)
                            v = -v;
                        } else
                          v = (__int128)lo + (__int128)(u % (span < 64 ? span : 64));
                        if (v < lo)
                          v = lo;
                        if (v > hi)
                          v = hi;
                        return (int64_t)v;
                      });
}

} // namespace vrc
